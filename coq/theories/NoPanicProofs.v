(* C08 over whole runs: nothing a party without keys can put on the wire - unverifiable bytes, and verbatim replays of messages that
   honest nodes produced (which are well-formed) - ever makes a node panic, in any state it can reach. *)
From VpnModel Require Import Base RangeMatch Table Nonce Replay Core CoreProofs Conn PeerCrypto NodeInfo Interval Node NodeProofs InitProofs InvProofs TrustProofs SurviveProofs NextHopProofs TickProofs.

(* what honest nodes put on the wire: ECDH public keys of 32 bytes, non-empty sealed messages *)
Definition wf_rot (body : bytes) : Prop :=
  forall m, rot_decode body = Some m -> length (rm_propose m) = 32%nat /\ (forall ck, rm_confirm m = Some ck -> length ck = 32%nat).
Definition wf_plain (p : bytes) : Prop :=
  match p with [] => False | ty :: body => (ty =? MESSAGE_TYPE_ROTATION) = true -> wf_rot body end.
Definition wf_wire (w : wire) : Prop :=
  match w with
  | WInit m => forall b, im_ecdh m = Some b -> length b = 32%nat
  | WData (DG _ _ (Seal _ _ p) _) => wf_plain p
  | _ => True
  end.

Lemma ecdh_some : forall priv pub, length pub = 32%nat -> exists k, ecdh priv pub = Some k.
Proof. intros priv pub H. unfold ecdh. rewrite H. cbn. eexists; reflexivity. Qed.

Lemma handle_init_no_panic : forall ok s m, ecdh_inv s -> (forall b, im_ecdh m = Some b -> length b = 32%nat) ->
  panics (snd (fst (handle_init ok s m))) = false.
Proof.
  intros ok s m Hinv Hwf.
  destruct (snd (fst (handle_init ok s m))) as [r|e|p] eqn:Er; try reflexivity. exfalso.
  pose proof (no_panic11 ok s m Hinv) as H11. rewrite Er in H11.
  revert Er. unfold handle_init. hi_cases; cbn [fst snd]; intros Er; try discriminate Er.
  all: try (match goal with H : select_algorithm _ _ = Panic _ |- _ => exact (select_never_panics _ _ _ H) end).
  all: try (inversion Er; subst p; apply H11; reflexivity).
  all: repeat match goal with
              | H : match ?x with Some _ => _ | None => _ end = None |- _ => destruct x as [[? ?]|]; try discriminate H
              end.
  all: match goal with
       | H : ecdh _ match im_ecdh ?mm with Some _ => _ | None => _ end = None, Hw : forall b, im_ecdh ?mm = Some b -> _ |- _ =>
           let Eb := fresh "Eb" in destruct (im_ecdh mm) as [bb|] eqn:Eb;
           [unfold ecdh in H; rewrite (Hw bb eq_refl) in H; discriminate H|]
       end.
  all: repeat match goal with H : negb _ = false |- _ => apply Bool.negb_false_iff in H end.
  all: try discriminate.
Qed.


(* a completed handshake object answers with an error or a repetition, never with a panic, and stays what it is *)
Lemma closed_result : forall ok s m, closed_stage s ->
  fst (fst (handle_init ok s m)) = s /\ is_success (snd (fst (handle_init ok s m))) = false /\ panics (snd (fst (handle_init ok s m))) = false.
Proof.
  intros ok s m Hc. destruct (closed_no_success ok s m Hc) as [H1 H2]. split; [exact H2|]. split; [exact H1|].
  unfold closed_stage in Hc. unfold handle_init.
  destruct (negb (existsb (N.eqb (im_signer m)) (i_trusted s))); [reflexivity|].
  match goal with |- context [if negb ?f then _ else _] => destruct (negb f) eqn:Ef end; [reflexivity|].
  assert (Hst : (im_stage m =? STAGE_PING) || (im_stage m =? STAGE_PONG) || (im_stage m =? STAGE_PENG) = true).
  { apply negb_false_iff in Ef. destruct (im_stage m =? STAGE_PING); [reflexivity|].
    destruct (im_stage m =? STAGE_PONG); [reflexivity|]. destruct (im_stage m =? STAGE_PENG); [reflexivity|discriminate]. }
  destruct (((i_salt s =? im_salt m) && (i_node s =? im_node m)) || (i_node s =? im_node m)); [reflexivity|].
  assert (Hmis : negb (im_stage m =? i_stage s) = true).
  { unfold STAGE_PING, STAGE_PONG, STAGE_PENG, WAITING_TO_CLOSE, CLOSING in *. destruct Hc as [Hc|Hc]; rewrite Hc; unfold WAITING_TO_CLOSE, CLOSING; lia. }
  assert (Hnd : (i_stage s =? STAGE_PONG) = false) by (destruct Hc as [Hc|Hc]; rewrite Hc; reflexivity).
  rewrite Hmis, Hnd. cbn [andb negb].
  destruct (i_stage s =? CLOSING); [reflexivity|]. destruct (i_last s); reflexivity.
Qed.

Lemma decrypt_ok_shape : forall c d c' p, core_decrypt c d = (c', Ok p) -> exists keyid ctr k n j, d = DG keyid ctr (Seal k n p) j.
Proof.
  intros c d c' p H. unfold core_decrypt in H. destruct d as [keyid ctr x j|len]; [|discriminate H].
  destruct (4 <=? keyid); [discriminate H|].
  destruct (be_val (nonce_rebuild (half c) ctr) <? minn (s_win (get_slot c keyid))); [discriminate H|].
  destruct x as [k n p0|]; cbn [aead_open] in H; [|discriminate H].
  destruct ((s_key (get_slot c keyid) =? k) && list_eqb (nonce_rebuild (half c) ctr) n); [|discriminate H].
  inversion H; subst. exists keyid, ctr, k, n, j. reflexivity.
Qed.

Lemma rot_handle_no_panic : forall rs body fr, wf_rot body -> panics (fst (rot_handle rs body fr)) = false.
Proof.
  intros rs body fr Hwf. unfold rot_handle. destruct (rot_decode body) as [m|] eqn:Ed; [|reflexivity].
  destruct (Hwf m Ed) as [Hp Hc]. unfold rot_process. destruct (rm_id m <=? r_mid rs); [reflexivity|].
  destruct (ecdh_some fr (rm_propose m) Hp) as [k Hk]. rewrite Hk.
  destruct (rm_confirm m) as [ck|] eqn:Ec; [|reflexivity]. destruct (r_proposed rs) as [priv|]; [|reflexivity].
  destruct (ecdh_some priv ck (Hc ck eq_refl)) as [k2 Hk2]. rewrite Hk2. reflexivity.
Qed.

Lemma rotate_no_panic : forall p body, wf_rot body -> panics (snd (pc_handle_rotate p body)) = false /\ pc_init (fst (pc_handle_rotate p body)) = pc_init p.
Proof.
  intros p body Hwf. unfold pc_handle_rotate. destruct (pc_plain p); [split; reflexivity|]. destruct (pc_rot p) as [rs|]; [|split; reflexivity].
  pose proof (rot_handle_no_panic rs body (pc_fresh p) Hwf) as Hn.
  destruct (rot_handle rs body (pc_fresh p)) as [[[rs' rk]|e|s] fr]; cbn [fst] in Hn; [|split; reflexivity|discriminate Hn].
  destruct rk as [k|]; [destruct (pc_core p)|]; split; reflexivity.
Qed.

(* everything but handshake messages: no panic, and the handshake object is not touched *)
Lemma nonhandshake_no_panic : forall ok p w, wf_wire w -> is_init_wire w = false \/ w = WBadInit ->
  panics (snd (fst (pc_handle ok p w))) = false /\ pc_init (fst (fst (pc_handle ok p w))) = pc_init p.
Proof.
  intros ok p w Hwf Hk. destruct w as [m| | |d|b]; cbn [pc_handle].
  - destruct Hk as [Hk|Hk]; discriminate Hk.
  - destruct (pc_init p) eqn:E; cbn [fst snd]; (split; [reflexivity|exact E]).
  - split; reflexivity.
  - destruct (pc_plain p).
    + destruct d as [keyid ctr x j|[|n]]; [destruct (keyid =? MESSAGE_TYPE_ROTATION)| |]; split; reflexivity.
    + destruct (pc_core p) as [c|]; [|split; reflexivity].
      pose proof (decrypt_never_panics c d) as Hdp.
      destruct (core_decrypt c d) as [c' [pl|e|s]] eqn:Ed; cbn [snd] in Hdp; [|split; reflexivity|discriminate Hdp].
      destruct (decrypt_ok_shape c d c' pl Ed) as (keyid & ctr & k & n & j & ->). cbn [wf_wire] in Hwf.
      destruct pl as [|ty body]; [destruct Hwf|]. cbn [wf_plain] in Hwf.
      destruct (ty =? MESSAGE_TYPE_ROTATION) eqn:Et; [|split; reflexivity].
      match goal with |- context [pc_handle_rotate ?q body] => destruct (rotate_no_panic q body (Hwf eq_refl)) as [R1 R2]; destruct (pc_handle_rotate q body) as [p2 [u|e|s]] end;
        cbn [fst snd] in *; try discriminate R1; (split; [reflexivity|exact R2]).
  - destruct (pc_plain p).
    + destruct b as [|ty body]; [split; reflexivity|]. destruct (ty =? MESSAGE_TYPE_ROTATION); split; reflexivity.
    + destruct (pc_core p) as [c|]; [|split; reflexivity]. destruct (core_decrypt c (dgram_of_bytes b)) as [c' x]. split; reflexivity.
Qed.

Definition pclosed (p : peer_crypto) : Prop := match pc_init p with Some i => closed_stage i | None => True end.

Lemma pc_handle_no_panic : forall ok p w, pinv p -> wf_wire w -> panics (snd (fst (pc_handle ok p w))) = false.
Proof.
  intros ok p w Hinv Hwf.
  assert (NH : is_init_wire w = false \/ w = WBadInit -> panics (snd (fst (pc_handle ok p w))) = false) by (intros K; apply (nonhandshake_no_panic ok p w Hwf K)).
  destruct w as [m| | |d|b]; [|apply NH; right; reflexivity|apply NH; left; reflexivity|apply NH; left; reflexivity|apply NH; left; reflexivity].
  cbn [pc_handle]. unfold pc_handle_init. unfold pinv in Hinv. destruct (pc_init p) as [i|]; [|reflexivity].
  pose proof (handle_init_no_panic ok i m Hinv Hwf) as Hn. destruct (handle_init ok i m) as [[i' r0] reply]. cbn [fst snd] in Hn.
  destruct r0 as [[|payload ini]|e|s]; cbn [fst snd]; try reflexivity; [|discriminate Hn].
  destruct ini.
  - destruct (rot_new false (pc_fresh p)) as [[rs rm] fr]. reflexivity.
  - destruct (i_core i') as [c0|]; [|reflexivity]. unfold rot_new. cbn [fst snd]. match goal with |- context [core_encrypt c0 ?x] => destruct (core_encrypt c0 x) end. reflexivity.
Qed.

(* a peer's connection object: its handshake object, if still there, has completed - and that is for good *)
Lemma pclosed_handle : forall ok p w, pclosed p -> wf_wire w ->
  pclosed (fst (fst (pc_handle ok p w))) /\ panics (snd (fst (pc_handle ok p w))) = false.
Proof.
  intros ok p w Hc Hwf.
  assert (NH : is_init_wire w = false \/ w = WBadInit -> pclosed (fst (fst (pc_handle ok p w))) /\ panics (snd (fst (pc_handle ok p w))) = false).
  { intros K. destruct (nonhandshake_no_panic ok p w Hwf K) as [N1 N2]. split; [unfold pclosed; rewrite N2; exact Hc|exact N1]. }
  destruct w as [m| | |d|b]; [|apply NH; right; reflexivity|apply NH; left; reflexivity|apply NH; left; reflexivity|apply NH; left; reflexivity]. clear NH.
  cbn [pc_handle]. unfold pc_handle_init. unfold pclosed in *. destruct (pc_init p) as [i|] eqn:Ei; [|cbn [fst snd]; rewrite Ei; split; [exact I|reflexivity]].
  destruct (closed_result ok i m Hc) as (H1 & H2 & H3). destruct (handle_init ok i m) as [[i' r0] reply]. cbn [fst snd] in *. subst i'.
  destruct r0 as [[|payload ini]|e|s]; cbn [fst snd pc_set pc_init]; try (split; [exact Hc|reflexivity]); discriminate.
Qed.

Lemma initialized_closed : forall ok p w p' r rep, pc_handle ok p w = (p', Ok r, rep) -> is_initialized r = true -> pclosed p'.
Proof.
  intros ok p w p' r rep H Hr. destruct (pc_initialized_needs_trust ok p w p' r rep H Hr) as (i & m & -> & Ei & _).
  cbn [pc_handle] in H. unfold pc_handle_init in H. rewrite Ei in H.
  pose proof (success_closes ok i m) as Hclose. destruct (handle_init ok i m) as [[i' r0] reply]. cbn [fst snd] in Hclose.
  destruct r0 as [[|payload ini]|e|s]; try (inversion H; subst; discriminate Hr).
  assert (Hc : closed_stage i') by (eapply Hclose; reflexivity).
  assert (IO : forall i0, (if i_stage (upd_init i' (i_ecdh i') (i_stage i') (i_close_time i') (i_last i') None (i_selected i') (i_retries i') (i_fresh i')) =? CLOSING then None
                           else Some (upd_init i' (i_ecdh i') (i_stage i') (i_close_time i') (i_last i') None (i_selected i') (i_retries i') (i_fresh i'))) = Some i0 -> closed_stage i0).
  { intros i0 H0. destruct (_ =? CLOSING); [discriminate H0|]. inversion H0; subst i0. exact Hc. }
  destruct ini.
  - destruct (rot_new false (pc_fresh p)) as [[rs rm] fr]. inversion H; subst p'. unfold pclosed. cbn [with_alg pc_set pc_init].
    match goal with |- match ?x with _ => _ end => destruct x as [i0|] eqn:E0; [apply IO; exact E0|exact I] end.
  - destruct (i_core i') as [c0|].
    + destruct (rot_new true (pc_fresh p)) as [[rs rm] fr]. destruct rm as [m1|]; [|inversion H].
      destruct (core_encrypt c0 _) as [c1 dd]. inversion H; subst p'. unfold pclosed. cbn [with_alg pc_set pc_init].
      match goal with |- match ?x with _ => _ end => destruct x as [i0|] eqn:E0; [apply IO; exact E0|exact I] end.
    + inversion H; subst p'. unfold pclosed. cbn [pc_set pc_init].
      match goal with |- match ?x with _ => _ end => destruct x as [i0|] eqn:E0; [apply IO; exact E0|exact I] end.
Qed.

Lemma init_every_second_keeps : forall i, (ecdh_inv i -> ecdh_inv (fst (init_every_second i))) /\ (closed_stage i -> closed_stage (fst (init_every_second i))).
Proof.
  intros i. unfold init_every_second, ecdh_inv, closed_stage.
  destruct (i_stage i =? WAITING_TO_CLOSE) eqn:E4.
  - apply N.eqb_eq in E4. destruct (i_close_time i =? 0); cbn [fst upd_init i_stage i_ecdh]; (split; [intros _ H; try rewrite E4 in H; discriminate H|intros _; auto]).
  - destruct (i_stage i =? CLOSING) eqn:E5; [split; auto|]. destruct (i_retries i <? MAX_FAILED_RETRIES); cbn [fst upd_init i_stage i_ecdh].
    + split; auto.
    + split; [intros _ H; discriminate H|intros _; right; reflexivity].
Qed.

Lemma tick_keeps : forall p, (pinv p -> pinv (fst (fst (pc_every_second p)))) /\ (pclosed p -> pclosed (fst (fst (pc_every_second p)))) /\
  panics (snd (fst (pc_every_second p))) = false.
Proof.
  intros p. unfold pc_every_second, pinv, pclosed.
  assert (Hio : forall io ir, (match pc_init p with Some i => let '(i', r) := init_every_second i in (Some i', r) | None => (None, Ok None) end) = (io, ir) ->
                (match pc_init p with Some i => ecdh_inv i | None => True end -> match io with Some i => ecdh_inv i | None => True end) /\
                (match pc_init p with Some i => closed_stage i | None => True end -> match io with Some i => closed_stage i | None => True end) /\
                panics ir = false).
  { intros io ir E. destruct (pc_init p) as [i|].
    - destruct (init_every_second_keeps i) as [K1 K2]. pose proof (init_every_second_no_panic i) as K3.
      destruct (init_every_second i) as [i' r]. injection E as <- <-. cbn [fst snd] in *. split; [exact K1|]. split; [exact K2|]. destruct r; [reflexivity|reflexivity|destruct K3].
    - injection E as <- <-. split; [auto|]. split; [auto|reflexivity]. }
  destruct (match pc_init p with Some i => let '(i', r) := init_every_second i in (Some i', r) | None => (None, Ok None) end) as [io ir].
  destruct (Hio io ir eq_refl) as (H1 & H2 & H3). clear Hio.
  assert (F1 : forall (Q : init_state -> Prop), match io with Some i => Q i | None => True end ->
               match (match io with Some i => if i_stage i =? CLOSING then None else Some i | None => None end) with Some i => Q i | None => True end).
  { intros Q HQ. destruct io as [i|]; [|exact I]. destruct (i_stage i =? CLOSING); [exact I|exact HQ]. }
  destruct ir as [out|e|s]; [|cbn [fst snd pc_set pc_init]; split; [exact H1|split; [exact H2|reflexivity]]|discriminate H3].
  assert (G : forall rot pl c cnt fr, (match pc_init p with Some i => ecdh_inv i | None => True end -> match pc_init (pc_set p (match io with Some i => if i_stage i =? CLOSING then None else Some i | None => None end) rot pl c cnt fr) with Some i => ecdh_inv i | None => True end) /\
                                      (match pc_init p with Some i => closed_stage i | None => True end -> match pc_init (pc_set p (match io with Some i => if i_stage i =? CLOSING then None else Some i | None => None end) rot pl c cnt fr) with Some i => closed_stage i | None => True end)).
  { intros. cbn [pc_set pc_init]. split; intros H; [apply (F1 ecdh_inv), H1, H|apply (F1 closed_stage), H2, H]. }
  destruct out as [m|]; cbn [fst snd]; [destruct (G (pc_rot p) (pc_plain p) (option_map core_tick (pc_core p)) (pc_counter p) (pc_fresh p)) as [G1 G2]; split; [exact G1|split; [exact G2|reflexivity]]|].
  destruct (pc_rot p) as [rs|]; cbn [fst snd]; [|destruct (G None (pc_plain p) (option_map core_tick (pc_core p)) (pc_counter p) (pc_fresh p)) as [G1 G2]; split; [exact G1|split; [exact G2|reflexivity]]].
  destruct (pc_counter p + 1 <? ROTATE_INTERVAL); cbn [fst snd]; [destruct (G (Some rs) (pc_plain p) (option_map core_tick (pc_core p)) (pc_counter p + 1) (pc_fresh p)) as [G1 G2]; split; [exact G1|split; [exact G2|reflexivity]]|].
  destruct (rot_cycle rs (pc_fresh p)) as [[[rs' rm] rk] fr].
  assert (S : forall p2 ty b, pc_init (fst (pc_seal p2 ty b)) = pc_init p2 /\ panics (snd (pc_seal p2 ty b)) = false).
  { intros p2 ty b. unfold pc_seal. destruct (pc_plain p2); [split; reflexivity|]. destruct (pc_core p2) as [c|]; [|split; reflexivity].
    destruct (core_encrypt c (ty :: b)). split; reflexivity. }
  destruct rk as [k|]; [destruct (option_map core_tick (pc_core p)) as [c1|]; cbn [fst snd]; [|destruct (G (Some rs') (pc_plain p) None 0 fr) as [G1 G2]; split; [exact G1|split; [exact G2|reflexivity]]]|];
    (destruct rm as [m|]; cbn [fst snd];
     [match goal with |- context [pc_seal ?p2 ?t ?b] => destruct (S p2 t b) as [S1 S2]; destruct (pc_seal p2 t b) as [p3 [w|e|s]]; cbn [fst snd] in *; try discriminate S2; rewrite S1 end|];
     match goal with |- context [pc_set p _ ?rot ?pl ?c ?cnt ?fr0] => destruct (G rot pl c cnt fr0) as [G1 G2]; split; [exact G1|split; [exact G2|reflexivity]] end).
Qed.

Lemma pclosed_not_initialized : forall ok p w p' r rep, pclosed p -> pc_handle ok p w = (p', Ok r, rep) -> is_initialized r = false.
Proof.
  intros ok p w p' r rep Hc H. destruct (is_initialized r) eqn:Hr; [|reflexivity]. exfalso.
  destruct (pc_initialized_needs_trust ok p w p' r rep H Hr) as (i & m & -> & Ei & _).
  cbn [pc_handle] in H. unfold pc_handle_init in H. rewrite Ei in H. unfold pclosed in Hc. rewrite Ei in Hc.
  destruct (closed_result ok i m Hc) as (_ & H2 & _). destruct (handle_init ok i m) as [[i' r0] reply]. cbn [fst snd] in H2.
  destruct r0 as [[|payload ini]|e|s]; try discriminate H2; inversion H; subst; discriminate Hr.
Qed.

Lemma seal_keeps_init : forall p ty b, pc_init (fst (pc_seal p ty b)) = pc_init p.
Proof.
  intros p ty b. unfold pc_seal. destruct (pc_plain p); [reflexivity|]. destruct (pc_core p) as [c|]; [|reflexivity].
  destruct (core_encrypt c (ty :: b)). reflexivity.
Qed.

Lemma initialize_pinv : forall p, pinv p -> pinv (fst (pc_initialize p)).
Proof.
  intros p H. unfold pc_initialize. destruct (pc_init p) as [i|] eqn:Ei; [|exact H].
  destruct (negb (i_stage i =? STAGE_PING)); [exact H|]. pose proof (ecdh_inv_ping i) as K. destruct (init_send_ping i) as [i' m]. exact K.
Qed.

(* ---- nodes ---- *)
Definition QP (n : node) : Prop :=
  (forall a pc, aget (n_pending n) a = Some pc -> pinv pc) /\ (forall a pd, aget (n_peers n) a = Some pd -> pclosed (p_crypto pd)).

Lemma qp_pending_aset : forall n a pc, QP n -> pinv pc -> QP (upd n (n_peers n) (aset (n_pending n) a pc) (n_own n) (n_table n)).
Proof.
  intros n a pc (Hq & Hp) Hpc. split; [|exact Hp]. cbn [upd n_pending]. intros b pc' Hb.
  destruct (N.eq_dec a b) as [<-|Hne]; [rewrite aget_aset_same in Hb; inversion Hb; subst; exact Hpc|rewrite aget_aset_other in Hb by exact Hne; exact (Hq b pc' Hb)].
Qed.
Lemma qp_pending_adel : forall n a, QP n -> QP (upd n (n_peers n) (adel (n_pending n) a) (n_own n) (n_table n)).
Proof.
  intros n a (Hq & Hp). split; [|exact Hp]. cbn [upd n_pending]. intros b pc' Hb.
  destruct (N.eq_dec b a) as [->|Hne]; [rewrite aget_adel_same in Hb; discriminate|rewrite aget_adel_other in Hb by congruence; exact (Hq b pc' Hb)].
Qed.
Lemma qp_peers_aset : forall n a pd own t, QP n -> pclosed (p_crypto pd) -> QP (upd n (aset (n_peers n) a pd) (n_pending n) own t).
Proof.
  intros n a pd own t (Hq & Hp) Hpd. split; [exact Hq|]. cbn [upd n_peers]. intros b pd' Hb.
  destruct (N.eq_dec a b) as [<-|Hne]; [rewrite aget_aset_same in Hb; inversion Hb; subst; exact Hpd|rewrite aget_aset_other in Hb by exact Hne; exact (Hp b pd' Hb)].
Qed.
Lemma qp_peers_adel : forall n a t, QP n -> QP (upd n (adel (n_peers n) a) (n_pending n) (n_own n) t).
Proof.
  intros n a t (Hq & Hp). split; [exact Hq|]. cbn [upd n_peers]. intros b pd' Hb.
  destruct (N.eq_dec b a) as [->|Hne]; [rewrite aget_adel_same in Hb; discriminate|rewrite aget_adel_other in Hb by congruence; exact (Hp b pd' Hb)].
Qed.
Lemma qp_same : forall n n', n_peers n' = n_peers n -> n_pending n' = n_pending n -> QP n -> QP n'.
Proof. intros n n' H2 H3. unfold QP. rewrite H2, H3. exact (fun H => H). Qed.

Lemma new_instance_qp : forall n salt, QP n -> QP (fst (new_instance n salt)) /\ pinv (snd (new_instance n salt)).
Proof. intros n salt H. split; [exact H|]. unfold new_instance. cbn [snd]. apply pinv_new. Qed.

Lemma connect_sock_qp : forall salts n a, QP n -> QP (fst (connect_sock salts n a)).
Proof.
  intros salts n a H. unfold connect_sock. destruct (ahas (n_peers n) a || memN a (n_own n) || ahas (n_pending n) a); [exact H|].
  pose proof (new_instance_qp n (salt_for salts (c_num (n_cfg n)) a) H) as [H1 Hpc]. destruct (new_instance n _) as [n1 pc]. cbn [fst snd] in *.
  pose proof (initialize_pinv pc Hpc) as Hpc'. destruct (pc_initialize pc) as [pc' [w|e|s]]; cbn [fst snd] in *; [apply qp_pending_aset; assumption|exact H1|exact H1].
Qed.

Lemma fold_qp : forall (A : Type) (f : node * list effect -> A -> node * list effect) (l : list A) st,
  (forall st x, QP (fst st) -> QP (fst (f st x))) -> QP (fst st) -> QP (fst (fold_left f l st)).
Proof. intros A f l. induction l as [|x t IH]; intros st H Hs; [exact Hs|]. cbn [fold_left]. apply IH; [exact H|apply H; exact Hs]. Qed.

Lemma connect_qp : forall salts n addrs, QP n -> QP (fst (connect salts n addrs)).
Proof.
  intros salts n addrs H. unfold connect. destruct (existsb _ addrs); [exact H|].
  apply (fold_qp _ _ addrs (n, [])); [|exact H]. intros [m fx] a Hm. cbn [fst] in *.
  pose proof (connect_sock_qp salts m a Hm) as G. destruct (connect_sock salts m a) as [m' fx']. exact G.
Qed.

Lemma connect_to_peers_qp : forall salts ps n, QP n -> QP (fst (connect_to_peers salts n ps)).
Proof.
  intros salts ps n H. unfold connect_to_peers. apply (fold_qp _ _ ps (n, [])); [|exact H]. intros [m fx] p Hm. cbn [fst] in *.
  destruct (existsb _ (map addr_of_bytes (pi_addrs p))); [exact Hm|].
  pose proof (connect_qp salts m (map addr_of_bytes (pi_addrs p)) Hm) as G.
  destruct (pi_node p) as [id|].
  - destruct (list_eqb id _); [cbn [fst]; eapply qp_same; [| |exact Hm]; reflexivity|].
    destruct (existsb _ (n_peers m)); [exact Hm|]. destruct (connect salts m _) as [m' fx']. exact G.
  - destruct (connect salts m _) as [m' fx']. exact G.
Qed.

Lemma upi_qp : forall salts now n addr info, QP n -> QP (fst (update_peer_info salts now n addr info)).
Proof.
  intros salts now n addr info H. unfold update_peer_info. destruct (aget (n_peers n) addr) as [pd|] eqn:Ea; [|exact H].
  assert (Hpd : pclosed (p_crypto pd)) by (destruct H as (_ & Hp); exact (Hp _ _ Ea)).
  destruct info as [i|].
  - apply connect_to_peers_qp. cbn [upd n_peers n_pending n_own n_table].
    match goal with |- QP (upd (upd n ?ps ?q ?o ?t) _ _ _ ?t') => change (upd (upd n ps q o t) ps q o t') with (upd n ps q o t') end.
    apply qp_peers_aset; [exact H|exact Hpd].
  - cbn [fst]. apply qp_peers_aset; [exact H|exact Hpd].
Qed.

Lemma anp_qp : forall salts now n addr info, QP n -> (forall pc, aget (n_pending n) addr = Some pc -> pclosed pc) ->
  QP (fst (add_new_peer salts now n addr info)).
Proof.
  intros salts now n addr info H Hcl. unfold add_new_peer. destruct (aget (n_pending n) addr) as [pc|] eqn:Ea; [|exact H].
  apply upi_qp. destruct H as (Hq & Hp). split.
  - cbn [upd n_pending]. intros b pc' Hb. destruct (N.eq_dec b addr) as [->|Hne]; [rewrite aget_adel_same in Hb; discriminate|rewrite aget_adel_other in Hb by congruence; exact (Hq b pc' Hb)].
  - cbn [upd n_peers]. intros b pd' Hb. destruct (N.eq_dec addr b) as [<-|Hne].
    + rewrite aget_aset_same in Hb. inversion Hb; subst pd'. cbn [p_crypto]. exact (Hcl _ eq_refl).
    + rewrite aget_aset_other in Hb by exact Hne. exact (Hp b pd' Hb).
Qed.

Lemma remove_peer_qp : forall now n addr, QP n -> QP (remove_peer now n addr).
Proof. intros now n addr H. unfold remove_peer. destruct (aget (n_peers n) addr); [|exact H]. apply qp_peers_adel. exact H. Qed.

Lemma hr_qp : forall salts now n src r reply, QP n ->
  (is_initialized r = true -> forall pc, aget (n_pending n) src = Some pc -> pclosed pc) ->
  QP (fst (handle_result salts now n src r reply)).
Proof.
  intros salts now n src r reply H Hq. destruct r as [ty body|p|p| |]; cbn [handle_result].
  - destruct (ty =? MESSAGE_TYPE_DATA).
    + destruct (parse_frame (n_cfg n) body) as [[s d]|e|s]; try exact H.
      cbn [fst]. destruct (c_learning (n_cfg n)); [|exact H]. eapply qp_same; [| |exact H]; reflexivity.
    + destruct (ty =? MESSAGE_TYPE_NODE_INFO).
      * destruct (ni_decode body) as [info|e|s]; [apply upi_qp; exact H|exact H|exact H].
      * destruct (ty =? MESSAGE_TYPE_KEEPALIVE); [apply upi_qp; exact H|].
        destruct (ty =? MESSAGE_TYPE_CLOSE); [cbn [fst]; apply remove_peer_qp; exact H|exact H].
  - destruct (ni_decode p) as [info|e|s]; [apply anp_qp; [exact H|exact (Hq eq_refl)]|exact H|exact H].
  - destruct (ni_decode p) as [info|e|s]; [|exact H|exact H].
    pose proof (anp_qp salts now n src info H (Hq eq_refl)) as G. destruct (add_new_peer salts now n src info) as [n1 fx]. exact G.
  - exact H.
  - exact H.
Qed.

(* what a pending (or brand-new) object leaves behind after a well-formed wire *)
Lemma pending_after : forall salts now n0 src pc w, QP n0 -> pinv pc -> wf_wire w ->
  QP (fst (let '(pc', r, reply) := pc_handle payload_ok pc w in
           let n1 := upd n0 (n_peers n0) (aset (n_pending n0) src pc') (n_own n0) (n_table n0) in
           match r with
           | Ok res => handle_result salts now n1 src res reply
           | Err c => let n2 := with_invalid n1 in
                      if c =? 2 then (upd n2 (n_peers n2) (adel (n_pending n2) src) (n_own n2) (n_table n2), []) else (n2, [])
           | Panic _ => (n1, [])
           end)).
Proof.
  intros salts now n0 src pc w H Hpc Hwf.
  pose proof (pc_handle_no_panic payload_ok pc w Hpc Hwf) as Hnp. pose proof (pinv_preserved payload_ok pc w Hpc) as Hpres.
  pose proof (fun p' r rep => initialized_closed payload_ok pc w p' r rep) as Hcl.
  destruct (pc_handle payload_ok pc w) as [[pc' r] reply]. cbn [fst snd] in *.
  destruct r as [res|c|s]; [| |discriminate Hnp].
  - apply hr_qp; [apply qp_pending_aset; [exact H|apply Hpres; reflexivity]|].
    intros Hi pc0 Hpc0. cbn [upd n_pending] in Hpc0. rewrite aget_aset_same in Hpc0. inversion Hpc0; subst pc0. exact (Hcl pc' res reply eq_refl Hi).
  - destruct (c =? 2) eqn:Ec; cbn [fst].
    + eapply qp_same; [| |apply (qp_pending_adel n0 src H)]; cbn [upd with_invalid n_peers n_pending]; [reflexivity|].
      unfold adel. clear. induction (n_pending n0) as [|[k v] t IH]; cbn [aset]; [cbn; rewrite N.eqb_refl; reflexivity|].
      destruct (src =? k) eqn:E.
      * apply N.eqb_eq in E. subst k. cbn [filter fst]. rewrite N.eqb_refl. cbn [negb]. reflexivity.
      * cbn [filter fst]. rewrite N.eqb_sym, E. cbn [negb]. rewrite IH. reflexivity.
    + apply (qp_pending_aset n0 src pc' H). apply Hpres; [|reflexivity]. cbn [pfatal]. destruct c as [|c]; [reflexivity|]. destruct c; try reflexivity; try discriminate Ec. destruct c; try reflexivity; discriminate Ec.
Qed.

Lemma handle_net_qp : forall salts now n src w, QP n -> wf_wire w -> QP (fst (handle_net salts now n src w)).
Proof.
  intros salts now n src w H Hwf. pose proof H as (Hq & Hp). unfold handle_net.
  destruct (if is_init_wire w || negb (ahas (n_peers n) src) then aget (n_pending n) src else None) as [pc|] eqn:Esel.
  - assert (Ha : aget (n_pending n) src = Some pc) by (destruct (is_init_wire w || negb (ahas (n_peers n) src)); [exact Esel|discriminate]).
    exact (pending_after salts now n src pc w H (Hq _ _ Ha) Hwf).
  - destruct (is_init_wire w) eqn:Einit.
    + cbn [orb] in Esel.
      destruct (match aget (n_peers n) src with Some pd => if pc_has_init (p_crypto pd) then Some pd else None | None => None end) as [pd|] eqn:Epd.
      * assert (Ea : aget (n_peers n) src = Some pd) by (destruct (aget (n_peers n) src) as [pd0|]; [destruct (pc_has_init (p_crypto pd0)); [exact Epd|discriminate]|discriminate]).
        pose proof (pclosed_handle payload_ok (p_crypto pd) w (Hp _ _ Ea) Hwf) as [P1 P2].
        pose proof (fun p' r rep => pclosed_not_initialized payload_ok (p_crypto pd) w p' r rep (Hp _ _ Ea)) as P3.
        destruct (pc_handle payload_ok (p_crypto pd) w) as [[pc' r] reply]. cbn [fst snd] in *.
        match goal with |- QP (fst (match r with Ok _ => _ | Err _ => (with_invalid ?m, _) | Panic _ => _ end)) => assert (H1 : QP m) by (apply qp_peers_aset; [exact H|exact P1]) end.
        destruct r as [res|c|s]; [|exact H1|exact H1].
        apply hr_qp; [exact H1|]. intros Hi. rewrite (P3 pc' res reply eq_refl) in Hi. discriminate Hi.
      * pose proof (new_instance_qp n (salt_for salts (c_num (n_cfg n)) src) H) as [H0 Hpc]. destruct (new_instance n _) as [n0 pc]. cbn [fst snd] in *.
        pose proof (pending_after salts now n0 src pc w H0 Hpc Hwf) as G.
        pose proof (pc_handle_no_panic payload_ok pc w Hpc Hwf) as Hnp.
        destruct (pc_handle payload_ok pc w) as [[pc' r] reply]. cbn [fst snd] in *.
        destruct r as [res|c|s]; [exact G|exact H0|exact H0].
    + destruct (aget (n_peers n) src) as [pd|] eqn:Ea; [|exact H].
      pose proof (pclosed_handle payload_ok (p_crypto pd) w (Hp _ _ Ea) Hwf) as [P1 P2].
      pose proof (fun p' r rep => pclosed_not_initialized payload_ok (p_crypto pd) w p' r rep (Hp _ _ Ea)) as P3.
      destruct (pc_handle payload_ok (p_crypto pd) w) as [[pc' r] reply]. cbn [fst snd] in *.
      match goal with |- QP (fst (match r with Ok _ => _ | Err _ => (with_invalid ?m, _) | Panic _ => _ end)) => assert (H1 : QP m) by (apply qp_peers_aset; [exact H|exact P1]) end.
      destruct r as [res|c|s]; [|exact H1|exact H1].
      apply hr_qp; [exact H1|]. intros Hi. rewrite (P3 pc' res reply eq_refl) in Hi. discriminate Hi.
Qed.

Lemma send_data_qp : forall n addr ty body, QP n -> QP (fst (send_data n addr ty body)).
Proof.
  intros n addr ty body H. unfold send_data. destruct (aget (n_peers n) addr) as [pd|] eqn:Ea; [|exact H].
  unfold pc_send. pose proof (seal_keeps_init (p_crypto pd) ty body) as S1.
  destruct (pc_seal (p_crypto pd) ty body) as [pc' [w|e|s]]; cbn [fst snd] in *; try exact H.
  apply qp_peers_aset; [exact H|]. unfold pclosed. cbn [p_crypto]. rewrite S1. exact (proj2 H _ _ Ea).
Qed.

Lemma broadcast_qp : forall n ty body, QP n -> QP (fst (broadcast n ty body)).
Proof.
  intros n ty body H. unfold broadcast. apply (fold_qp _ _ (n_peers n) (n, [])); [|exact H]. intros [m fx] e Hm. cbn [fst] in *.
  pose proof (send_data_qp m (fst e) ty body Hm) as G. destruct (send_data m (fst e) ty body) as [m' fx']. exact G.
Qed.

Lemma handle_iface_qp : forall salts now n frame, QP n -> QP (fst (handle_iface salts now n frame)).
Proof.
  intros salts now n frame H. unfold handle_iface. destruct (parse_frame (n_cfg n) frame) as [[s dst]|e|s]; [|exact H|exact H].
  destruct (table_lookup (n_table n) now dst) as [r t'].
  assert (H1 : QP (upd n (n_peers n) (n_pending n) (n_own n) t')) by (eapply qp_same; [| |exact H]; reflexivity).
  destruct r as [addr|]; [apply send_data_qp; exact H1|]. destruct (c_broadcast (n_cfg n)); [apply broadcast_qp; exact H1|exact H1].
Qed.

Lemma tick_pending_qp : forall n, QP n -> QP (fst (fst (tick_pending n))).
Proof.
  intros n. unfold tick_pending.
  assert (G : forall l st, QP (fst (fst st)) -> QP (fst (fst (fold_left (fun (acc : node * list effect * list N) (e : N * peer_crypto) =>
    let '(m, fx, del) := acc in
    let addr := fst e in
    match aget (n_pending m) addr with
    | None => (m, fx, del)
    | Some pc =>
        let '(pc', r, w) := pc_every_second pc in
        let m' := upd m (n_peers m) (aset (n_pending m) addr pc') (n_own m) (n_table m) in
        match r with
        | Err _ => (m', fx, del ++ [addr])
        | Ok MReply => (m', fx ++ match w with Some x => [XSend addr x] | None => [] end, del)
        | _ => (m', fx, del)
        end
    end) l st)))).
  { induction l as [|e t IH]; intros [[m fx] del] H; [exact H|]. cbn [fold_left]. apply IH. cbn [fst] in *.
    destruct (aget (n_pending m) (fst e)) as [pc|] eqn:Ea; [|exact H].
    destruct (tick_keeps pc) as (K1 & _ & _). specialize (K1 (proj1 H _ _ Ea)). destruct (pc_every_second pc) as [[pc' r] w]. cbn [fst] in *.
    pose proof (qp_pending_aset m (fst e) pc' H K1) as H1. destruct r as [[ | | | | ]|x|s]; exact H1. }
  intros H. apply (G (n_pending n) (n, [], [])). exact H.
Qed.

Lemma tick_peers_qp : forall n, QP n -> QP (fst (fst (tick_peers n))).
Proof.
  intros n. unfold tick_peers.
  assert (G : forall l st, QP (fst (fst st)) -> QP (fst (fst (fold_left (fun (acc : node * list effect * list N) (e : N * peer_data) =>
    let '(m, fx, del) := acc in
    let addr := fst e in
    match aget (n_peers m) addr with
    | None => (m, fx, del)
    | Some pd =>
        let '(pc', r, w) := pc_every_second (p_crypto pd) in
        let pd' := {| p_addrs := p_addrs pd; p_timeout := p_timeout pd; p_peer_timeout := p_peer_timeout pd; p_node := p_node pd; p_crypto := pc' |} in
        let m' := upd m (aset (n_peers m) addr pd') (n_pending m) (n_own m) (n_table m) in
        match r with
        | Err _ => (m', fx, del ++ [addr])
        | Ok MReply => (m', fx ++ match w with Some x => [XSend addr x] | None => [] end, del)
        | _ => (m', fx, del)
        end
    end) l st)))).
  { induction l as [|e t IH]; intros [[m fx] del] H; [exact H|]. cbn [fold_left]. apply IH. cbn [fst] in *.
    destruct (aget (n_peers m) (fst e)) as [pd|] eqn:Ea; [|exact H].
    destruct (tick_keeps (p_crypto pd)) as (_ & K2 & _). specialize (K2 (proj2 H _ _ Ea)). destruct (pc_every_second (p_crypto pd)) as [[pc' r] w]. cbn [fst] in *.
    match goal with |- QP (fst (fst (match r with Ok _ => _ | Err _ => (?m', _, _) | Panic _ => _ end))) => assert (H1 : QP m') by (apply qp_peers_aset; [exact H|exact K2]) end.
    destruct r as [[ | | | | ]|x|s]; exact H1. }
  intros H. apply (G (n_peers n) (n, [], [])). exact H.
Qed.

Lemma drop_and_redial_qp : forall salts now m addr, QP m ->
  QP (fst (connect_sock salts (upd m (adel (n_peers m) addr) (n_pending m) (n_own m) (table_remove_claims (n_table m) now addr)) addr)).
Proof. intros salts now m addr H. apply connect_sock_qp. apply qp_peers_adel. exact H. Qed.

Lemma crypto_housekeep_qp : forall salts now n, QP n -> QP (fst (crypto_housekeep salts now n)).
Proof.
  intros salts now n H. unfold crypto_housekeep.
  pose proof (tick_pending_qp n H) as H1. destruct (tick_pending n) as [[n1 fx1] del1]. cbn [fst] in *.
  pose proof (tick_peers_qp n1 H1) as H2. destruct (tick_peers n1) as [[n2 fx2] del2]. cbn [fst] in *.
  assert (H3 : forall l m, QP m -> QP (fold_left (fun m addr => upd m (n_peers m) (adel (n_pending m) addr) (n_own m) (n_table m)) l m)).
  { induction l as [|a t IH]; intros m Hm; [exact Hm|]. cbn [fold_left]. apply IH. apply qp_pending_adel. exact Hm. }
  specialize (H3 del1 n2 H2).
  set (n3 := fold_left _ del1 n2) in *.
  assert (H4 : forall l st, QP (fst st) -> QP (fst (fold_left (fun (acc : node * list effect) (addr : N) =>
    let '(m, fx) := acc in
    if ahas (n_peers m) addr then
      let m2 := upd m (adel (n_peers m) addr) (n_pending m) (n_own m) (table_remove_claims (n_table m) now addr) in
      let '(m3, fx') := connect_sock salts m2 addr in (m3, fx ++ fx')
    else (m, fx)) l st))).
  { induction l as [|a t IH]; intros [m fx] Hm; [exact Hm|]. cbn [fold_left]. apply IH. cbn [fst] in *.
    destruct (ahas (n_peers m) a); [|exact Hm].
    pose proof (drop_and_redial_qp salts now m a Hm) as G. destruct (connect_sock salts _ a) as [m3 fx']. exact G. }
  apply (H4 del2 (n3, fx1 ++ fx2)). exact H3.
Qed.

Lemma reconnect_step_qp : forall salts now n, QP n -> QP (fst (reconnect_step salts now n)).
Proof.
  intros salts now n H. unfold reconnect_step.
  assert (G : QP (fst (fold_left (fun (acc : node * list effect) (e : reconnect) =>
      let '(m, fx) := acc in
      if (now <? rc_next e)%Z then (m, fx) else let '(m', fx') := connect salts m (rc_addrs e) in (m', fx ++ fx'))
      (n_reconnect n) (n, [])))).
  { apply (fold_qp _ _ (n_reconnect n) (n, [])); [|exact H]. intros [m fx] e Hm. cbn [fst] in *.
    destruct (now <? rc_next e)%Z; [exact Hm|].
    pose proof (connect_qp salts m (rc_addrs e) Hm) as C1. destruct (connect salts m (rc_addrs e)) as [m' fx']. exact C1. }
  destruct (fold_left _ (n_reconnect n) (n, [])) as [n1 fx]. cbn [fst] in *. eapply qp_same; [| |exact G]; reflexivity.
Qed.

Lemma housekeep_qp : forall salts now n, QP n -> QP (fst (housekeep salts now n)).
Proof.
  intros salts now n H. unfold housekeep.
  assert (H1 : forall l st, QP (fst st) -> QP (fst (fold_left (fun (acc : node * list effect) (addr : N) =>
      let '(m, fx) := acc in
      let m1 := upd m (adel (n_peers m) addr) (n_pending m) (n_own m) (table_remove_claims (n_table m) now addr) in
      let '(m2, fx') := connect_sock salts m1 addr in (m2, fx ++ fx')) l st))).
  { induction l as [|a t IH]; intros [m fx] Hm; [exact Hm|]. cbn [fold_left]. apply IH. cbn [fst] in *.
    pose proof (drop_and_redial_qp salts now m a Hm) as G. destruct (connect_sock salts _ a) as [m2 fx']. exact G. }
  specialize (H1 (map fst (filter (fun e => (p_timeout (snd e) <? now)%Z) (n_peers n))) (n, []) H).
  destruct (fold_left _ _ (n, [])) as [n1 fx1]. cbn [fst] in *.
  set (n2 := upd n1 (n_peers n1) (n_pending n1) (n_own n1) (table_housekeep (n_table n1) now)).
  assert (N2 : QP n2) by (eapply qp_same; [| |exact H1]; reflexivity).
  pose proof (crypto_housekeep_qp salts now n2 N2) as N3. destruct (crypto_housekeep salts now n2) as [n3 fx3]. cbn [fst] in *.
  assert (H4 : QP (fst (if (n_next_peers n3 <=? now)%Z then
      let '(m, fx) := broadcast n3 MESSAGE_TYPE_NODE_INFO (ni_encode (create_node_info n3)) in
      let iv := announce_interval (update_freq (c_peer_timeout (n_cfg m)) (c_keepalive (n_cfg m)))
                                  (map (fun e => p_peer_timeout (snd e)) (n_peers m)) in
      (with_sched m (now + Z.of_N iv)%Z (n_next_own_reset m) (n_reconnect m), fx)
    else (n3, [])))).
  { destruct (n_next_peers n3 <=? now)%Z; [|exact N3].
    pose proof (broadcast_qp n3 MESSAGE_TYPE_NODE_INFO (ni_encode (create_node_info n3)) N3) as G1.
    destruct (broadcast n3 _ _) as [m fx]. cbn [fst] in *. eapply qp_same; [| |exact G1]; reflexivity. }
  destruct (if (n_next_peers n3 <=? now)%Z then _ else _) as [n4 fx4]. cbn [fst] in *.
  pose proof (reconnect_step_qp salts now n4 H4) as N5. destruct (reconnect_step salts now n4) as [n5 fx5]. cbn [fst] in *.
  destruct (negb (c_hkfault (n_cfg n5)) && (n_next_own_reset n5 <=? now)%Z); [eapply qp_same; [| |exact N5]; reflexivity|exact N5].
Qed.

Definition wf_event (e : event) : Prop := match e with ENet _ w => wf_wire w | _ => True end.

Theorem step_qp : forall salts now n e, QP n -> wf_event e -> QP (fst (step salts now n e)).
Proof.
  intros salts now n e H Hwf. destruct e as [src w|f| |a|addrs]; cbn [step].
  - apply handle_net_qp; assumption.
  - apply handle_iface_qp; exact H.
  - apply housekeep_qp; exact H.
  - apply connect_qp; exact H.
  - cbn [fst]. eapply qp_same; [| |exact H]; reflexivity.
Qed.

Theorem reachable_qp : forall salts c t0 evs, Forall (fun te => wf_event (snd te)) evs -> QP (nrun salts (node_new c t0) evs).
Proof.
  intros salts c t0 evs.
  assert (H0 : QP (node_new c t0)) by (split; intros a x Hx; discriminate Hx).
  revert H0. generalize (node_new c t0). induction evs as [|[now e] t IH]; intros n Hn Hall; [exact Hn|]. cbn [nrun]. inversion Hall; subst.
  apply IH; [apply step_qp; assumption|assumption].
Qed.

(* C08, whole runs: as long as everything that ever arrived was well-formed (unverifiable bytes and verbatim replays of honest
   nodes' messages are), the next datagram - from any source, handled by whichever connection or handshake object answers for that
   source - does not panic, and neither does any housekeeping second *)
Theorem reachable_no_panic : forall salts c t0 evs src w pc, Forall (fun te => wf_event (snd te)) evs -> wf_wire w ->
  answering_object salts (nrun salts (node_new c t0) evs) src pc ->
  panics (snd (fst (pc_handle payload_ok pc w))) = false.
Proof.
  intros salts c t0 evs src w pc Hall Hwf Hobj. destruct (reachable_qp salts c t0 evs Hall) as [Hq Hp].
  destruct Hobj as [Hpend|[(pd & Hpd & Epc)|Epc]]; try subst pc.
  - apply pc_handle_no_panic; [exact (Hq _ _ Hpend)|exact Hwf].
  - apply (pclosed_handle payload_ok (p_crypto pd) w (Hp _ _ Hpd) Hwf).
  - apply pc_handle_no_panic; [|exact Hwf]. unfold new_instance. cbn [snd]. apply pinv_new.
Qed.

Theorem every_second_never_panics : forall p, panics (snd (fst (pc_every_second p))) = false.
Proof. intros p. apply (tick_keeps p). Qed.

(* what an outsider can send is well-formed: bytes that verify under no key, and sealed bytes it cannot open *)
Lemma unverifiable_wf : forall w, unverifiable w -> wf_wire w.
Proof. intros w H. destruct w as [m| | |d|b]; cbn [wf_wire]; try exact I; try (destruct H; fail). destruct d as [k c [kk nn p|] j|n]; try exact I. destruct H. Qed.

(* non-vacuity: the two handshake messages that lead to the example state of NextHopProofs are well-formed *)
Lemma ex_wf : Forall (fun te => wf_event (snd te)) ex_evs.
Proof.
  assert (E : exists m1 m2, ex_evs = [(1%Z, ENet 1001 (WInit m1)); (1%Z, ENet 1001 (WInit m2))] /\
              (exists b1, im_ecdh m1 = Some b1 /\ length b1 = 32%nat) /\ im_ecdh m2 = None).
  { vm_compute. eexists. eexists. split; [reflexivity|]. split; [eexists; split; reflexivity|reflexivity]. }
  destruct E as (m1 & m2 & -> & (b1 & E1 & L1) & E2).
  repeat constructor; cbn [snd wf_event wf_wire]; intros b Hb; congruence.
Qed.

(* C04: no (key, nonce) pair is ever used twice — invariant over every history of a CryptoCore. *)
From VpnModel Require Import Base Nonce NonceProofs Replay Core CoreProofs.

Inductive cop := CSeal (p : bytes) | COpen (d : dgram) | CRot (k id : N) (use : bool) (r : bytes) | CTick.

(* what a core seals: (key, nonce value) of every encrypt, newest first *)
Definition cstep (st : core * list (N * N)) (o : cop) : core * list (N * N) :=
  let '(c, log) := st in
  match o with
  | CSeal p => let s := get_slot c (current c) in
               (fst (core_encrypt c p), (s_key s, be_val (nonce_increment (s_send s))) :: log)
  | COpen d => (fst (core_decrypt c d), log)
  | CRot k id use r => (core_rotate c k id use r, log)
  | CTick => (core_tick c, log)
  end.
Definition crun (st : core * list (N * N)) (h : list cop) := fold_left cstep h st.

(* the premise on the environment: a rotated-in key was never sealed under before (it comes out of a
   fresh ECDH exchange), and the 6 random start bytes are bytes *)
Fixpoint fresh_rotations (st : core * list (N * N)) (h : list cop) : Prop :=
  match h with
  | [] => True
  | o :: t => match o with
              | CRot k _ _ r => ~ In k (map fst (snd st)) /\ all_bytes r /\ length r = 6%nat
              | _ => True
              end /\ fresh_rotations (cstep st o) t
  end.

Definition view (c : core) : N * bytes := (s_key (get_slot c (current c)), s_send (get_slot c (current c))).
Definition hoff (h : bool) : N := if h then 2 ^ 95 else 0.

Lemma get_set_same : forall c i s, wf_core c -> i < 4 -> get_slot (set_slot c i s) i = s.
Proof.
  intros c i s [Hl _] Hi. unfold get_slot, set_slot. cbn [slots]. apply nth_set_nth_same. rewrite Hl. lia.
Qed.

Lemma wf_set : forall c i s, wf_core c -> wf_core (set_slot c i s).
Proof. intros c i s [Hl Hc]. split; [cbn [set_slot slots]; rewrite length_set_nth; exact Hl|exact Hc]. Qed.

Lemma view_enc : forall c p, wf_core c ->
  view (fst (core_encrypt c p)) = (fst (view c), nonce_increment (snd (view c))) /\
  wf_core (fst (core_encrypt c p)) /\ half (fst (core_encrypt c p)) = half c.
Proof.
  intros c p Hwf. unfold core_encrypt, view. cbn [fst snd]. destruct Hwf as [Hl Hc].
  change (current (set_slot c (current c) _)) with (current c).
  rewrite get_set_same by first [exact Hc | split; assumption]. cbn [s_key s_send].
  split; [reflexivity|]. split; [apply wf_set; split; assumption|reflexivity].
Qed.

Lemma dec_cases : forall c d, wf_core c ->
  fst (core_decrypt c d) = c \/
  exists keyid w, keyid < 4 /\ fst (core_decrypt c d) =
     set_slot c keyid {| s_key := s_key (get_slot c keyid); s_send := s_send (get_slot c keyid); s_win := w |}.
Proof.
  intros c d Hwf. destruct d as [keyid ctr7 x j|n]; [|left; reflexivity]. unfold core_decrypt.
  destruct (4 <=? keyid) eqn:E; [left; reflexivity|].
  destruct (be_val (nonce_rebuild (half c) ctr7) <? minn (s_win (get_slot c keyid))); [left; reflexivity|].
  destruct (aead_open _ _ x); [|left; reflexivity]. right. eexists keyid, _. split; [lia|reflexivity].
Qed.

Lemma get_set_other : forall c i j s, i <> j -> i < 4 -> j < 4 -> get_slot (set_slot c i s) j = get_slot c j.
Proof.
  intros c i j s Hne Hi Hj. unfold get_slot, set_slot. cbn [slots]. apply nth_set_nth_other. lia.
Qed.

Lemma view_dec : forall c d, wf_core c ->
  view (fst (core_decrypt c d)) = view c /\ wf_core (fst (core_decrypt c d)) /\ half (fst (core_decrypt c d)) = half c.
Proof.
  intros c d Hwf. destruct (dec_cases c d Hwf) as [->|(keyid & w & Hk & ->)]; [repeat split; apply Hwf|].
  split; [|split; [apply wf_set; exact Hwf|reflexivity]].
  unfold view. change (current (set_slot c keyid _)) with (current c). destruct Hwf as [Hl Hc].
  destruct (N.eq_dec keyid (current c)) as [->|Hne].
  - rewrite get_set_same by first [exact Hc | split; assumption]. reflexivity.
  - rewrite get_set_other by assumption. reflexivity.
Qed.

Lemma view_tick : forall c, wf_core c -> view (core_tick c) = view c /\ wf_core (core_tick c) /\ half (core_tick c) = half c.
Proof.
  intros c [Hl Hc]. split; [|split; [split; [cbn [core_tick slots]; rewrite map_length; exact Hl|exact Hc]|reflexivity]].
  unfold view. change (current (core_tick c)) with (current c). rewrite tick_all_slots.
  assert ((N.to_nat (current c) <? length (slots c))%nat = true) as -> by (apply Nat.ltb_lt; rewrite Hl; lia). reflexivity.
Qed.

Lemma view_rot : forall c k id use r, wf_core c ->
  (view (core_rotate c k id use r) = view c \/ view (core_rotate c k id use r) = (k, nonce_start (half c) r)) /\
  wf_core (core_rotate c k id use r) /\ half (core_rotate c k id use r) = half c.
Proof.
  intros c k id use r Hwf. pose proof (rotate_fresh_window c k id use r Hwf) as (G1 & G2 & G3).
  assert (Hm : id mod 4 < 4) by (apply N.mod_lt; lia).
  split; [|split; [|reflexivity]].
  - unfold view. rewrite G3. destruct use.
    + right. rewrite G1. reflexivity.
    + destruct (N.eq_dec (current c) (id mod 4)) as [E|E].
      * right. rewrite E, G1. reflexivity.
      * left. rewrite G2 by exact E. reflexivity.
  - destruct Hwf as [Hl Hc]. split.
    + unfold core_rotate. cbn [slots set_slot]. rewrite length_set_nth. exact Hl.
    + unfold core_rotate. cbn [current]. destruct use; [exact Hm|exact Hc].
Qed.

(* the invariant: counter in the sender's own half within 2^48 + m of its base; every logged pair is
   in that half; pairs under the current key are at or below the counter; no pair twice *)
Definition NInv (hf : bool) (v : N * bytes) (log : list (N * N)) (m : N) : Prop :=
  all_bytes (snd v) /\ length (snd v) = 12%nat /\
  hoff hf <= be_val (snd v) < hoff hf + 2 ^ 48 + m /\
  NoDup log /\
  (forall k x, In (k, x) log -> in_half hf x) /\
  (forall x, In (fst v, x) log -> x <= be_val (snd v)).

Lemma ninv_seal : forall hf k s log m, m < 2 ^ 95 - 2 ^ 48 -> NInv hf (k, s) log m ->
  NInv hf (k, nonce_increment s) ((k, be_val (nonce_increment s)) :: log) (m + 1).
Proof.
  intros hf k s log m Hm (Hb & Hl & Hr & Hn & Hh & Hle). cbn [fst snd] in *.
  assert (Hv : be_val (nonce_increment s) = be_val s + 1).
  { rewrite increment_spec by exact Hb. rewrite Hl. change (256 ^ N.of_nat 12) with (2 ^ 96).
    apply N.mod_small. unfold hoff in Hr. destruct hf; lia. }
  unfold NInv. cbn [fst snd]. rewrite Hv.
  split; [apply increment_bytes; exact Hb|]. split; [rewrite increment_length; exact Hl|].
  split; [lia|]. split; [|split].
  - constructor; [|exact Hn]. intro Hin. apply Hle in Hin. lia.
  - intros k' x [E|Hin]; [|eapply Hh; exact Hin]. inversion E; subst. unfold in_half, hoff in *. destruct hf; lia.
  - intros x [E|Hin]; [inversion E; lia|]. apply Hle in Hin. lia.
Qed.

Lemma ninv_rot : forall hf k s log m k2 r, NInv hf (k, s) log m -> ~ In k2 (map fst log) -> all_bytes r -> length r = 6%nat ->
  NInv hf (k2, nonce_start hf r) log m.
Proof.
  intros hf k s log m k2 r (Hb & Hl & Hr & Hn & Hh & Hle) Hfresh Hrb Hrl.
  destruct (start_value hf r Hrb Hrl) as (V & B & A & L). unfold NInv. cbn [fst snd].
  split; [exact A|]. split; [exact L|]. split; [rewrite V; unfold hoff; destruct hf; lia|].
  split; [exact Hn|]. split; [exact Hh|].
  intros x Hin. exfalso. apply Hfresh. apply in_map_iff. exists (k2, x). split; [reflexivity|exact Hin].
Qed.

Lemma ninv_weaken : forall hf v log m m', m <= m' -> NInv hf v log m -> NInv hf v log m'.
Proof. intros hf v log m m' Hm (Hb & Hl & Hr & Hn & Hh & Hle). unfold NInv. repeat split; try assumption; lia. Qed.

Lemma crun_inv : forall h c log m, wf_core c -> NInv (half c) (view c) log m ->
  m + N.of_nat (length h) <= 2 ^ 95 - 2 ^ 48 -> fresh_rotations (c, log) h ->
  let st := crun (c, log) h in
  wf_core (fst st) /\ half (fst st) = half c /\ NInv (half c) (view (fst st)) (snd st) (m + N.of_nat (length h)).
Proof.
  induction h as [|o t IH]; intros c log m Hwf Hinv Hm Hfr.
  - cbn [crun fold_left fst snd length]. rewrite N.add_0_r. split; [exact Hwf|]. split; [reflexivity|exact Hinv].
  - cbn [crun fold_left]. destruct Hfr as [Ho Hfr]. cbn [length] in Hm.
    assert (Hstep : exists c' log', cstep (c, log) o = (c', log') /\ wf_core c' /\ half c' = half c /\ NInv (half c) (view c') log' (m + 1)).
    { destruct o as [p|d|k id use r|].
      - destruct (view_enc c p Hwf) as (Hv & Hw' & Hh'). eexists _, _. split; [reflexivity|]. split; [exact Hw'|]. split; [exact Hh'|].
        rewrite Hv. destruct (view c) as [k s] eqn:Ev. cbn [fst snd].
        assert (Ek : s_key (get_slot c (current c)) = k) by (unfold view in Ev; inversion Ev; reflexivity).
        assert (Es : s_send (get_slot c (current c)) = s) by (unfold view in Ev; inversion Ev; reflexivity).
        rewrite Ek, Es. apply ninv_seal; [lia|exact Hinv].
      - destruct (view_dec c d Hwf) as (Hv & Hw' & Hh'). eexists _, _. split; [reflexivity|]. split; [exact Hw'|]. split; [exact Hh'|].
        rewrite Hv. apply (ninv_weaken _ _ _ m); [lia|exact Hinv].
      - destruct (view_rot c k id use r Hwf) as (Hv & Hw' & Hh'). eexists _, _. split; [reflexivity|]. split; [exact Hw'|]. split; [exact Hh'|].
        apply (ninv_weaken _ _ _ m); [lia|]. destruct Hv as [-> | ->]; [exact Hinv|].
        destruct Ho as (Hfresh & Hrb & Hrl). cbn [snd] in Hfresh. destruct (view c) as [k0 s0]. eapply ninv_rot; eassumption.
      - destruct (view_tick c Hwf) as (Hv & Hw' & Hh'). eexists _, _. split; [reflexivity|]. split; [exact Hw'|]. split; [exact Hh'|].
        rewrite Hv. apply (ninv_weaken _ _ _ m); [lia|exact Hinv]. }
    destruct Hstep as (c' & log' & Est & Hw' & Hh' & Hi'). rewrite Est in *.
    rewrite <- Hh' in Hi'. specialize (IH c' log' (m + 1) Hw' Hi').
    assert (E : m + N.of_nat (length (o :: t)) = m + 1 + N.of_nat (length t)) by (cbn [length]; lia). rewrite E.
    destruct IH as (I1 & I2 & I3); [lia|exact Hfr|]. rewrite Hh' in *. split; [exact I1|]. split; [exact I2|exact I3].
Qed.

(* a core as CryptoCore::new creates it *)
Lemma ninv_new : forall k dummy hf r0 r1 r2 r3, all_bytes r0 -> length r0 = 6%nat ->
  NInv hf (view (core_new k dummy hf r0 r1 r2 r3)) [] 0.
Proof.
  intros k dummy hf r0 r1 r2 r3 Hb Hl. destruct (start_value hf r0 Hb Hl) as (V & B & A & L).
  unfold NInv, view, core_new. cbn [current get_slot N.to_nat nth slots new_slot s_key s_send fst snd].
  split; [exact A|]. split; [exact L|]. split; [rewrite V; unfold hoff; destruct hf; lia|].
  split; [constructor|]. split; intros; contradiction.
Qed.

(* C04 headline: for every history of seals, opens, ticks and rotations to fresh keys, of any length
   below 2^95 - 2^48, no two seals used the same (key, nonce), and all nonces lie in the sender's half *)
Theorem no_nonce_reuse : forall k dummy hf r0 r1 r2 r3 h, all_bytes r0 -> length r0 = 6%nat ->
  N.of_nat (length h) <= 2 ^ 95 - 2 ^ 48 ->
  let c0 := core_new k dummy hf r0 r1 r2 r3 in
  fresh_rotations (c0, []) h ->
  NoDup (snd (crun (c0, []) h)) /\ forall key x, In (key, x) (snd (crun (c0, []) h)) -> in_half hf x.
Proof.
  intros k dummy hf r0 r1 r2 r3 h Hb Hl Hlen c0 Hfr.
  assert (Hwf : wf_core c0) by (split; [reflexivity|cbn; lia]).
  pose proof (crun_inv h c0 [] 0 Hwf (ninv_new k dummy hf r0 r1 r2 r3 Hb Hl)) as H.
  destruct H as (_ & _ & (_ & _ & _ & Hn & Hh & _)); [lia|exact Hfr|].
  split; [exact Hn|exact Hh].
Qed.

(* the two ends of a connection (opposite halves, possibly the same key) never collide *)
Theorem ends_disjoint : forall x, in_half true x -> in_half false x -> False.
Proof. unfold in_half. intros x H1 H2. lia. Qed.

(* Model of src/config.rs: Config::default, merge_file, merge_args, into_config_file.
   Strings are tokens (N): the model never looks inside a string; the one place where the code does
   (a --hook argument containing ':' is a per-event hook) is the constructor of hook_arg, decided
   by the harness with the same rule (first ':').  Type: 0 tun / 1 tap.  Mode: 0 normal / 1 hub /
   2 switch / 3 router.  hooks (a HashMap) is an association list with insert = replace-or-append;
   it is compared as a sorted map. *)
From VpnModel Require Import Base.

Definition DEFAULT_DEVICE_NAME : N := 1000001.   (* "vpncloud%d" *)
Definition DEFAULT_LISTEN : N := 1000002.        (* "3210" *)

Record crypto_cfg := { cc_password : option N; cc_private : option N; cc_public : option N;
                       cc_trusted : list N; cc_algos : list N }.

Record config := {
  device_type : N; device_name : N; device_path : option N; fix_rp_filter : bool;
  ip : option N; advertise : list N; ifup : option N; ifdown : option N;
  crypto : crypto_cfg;
  listen : N; peers : list N; peer_timeout : N; keepalive : option N;
  beacon_store : option N; beacon_load : option N; beacon_interval : N; beacon_password : option N;
  mode : N; switch_timeout : N; claims : list N; auto_claim : bool; port_forwarding : bool; daemonize : bool;
  pid_file : option N; stats_file : option N; statsd_server : option N; statsd_prefix : option N;
  user : option N; group : option N; hook : option N; hooks : list (N * N) }.

Record cf_device := { cfd_type : option N; cfd_name : option N; cfd_path : option N; cfd_fix : option bool }.
Record cf_beacon := { cfb_store : option N; cfb_load : option N; cfb_interval : option N; cfb_password : option N }.
Record cf_statsd := { cfs_server : option N; cfs_prefix : option N }.

Record config_file := {
  cf_dev : option cf_device;
  cf_ip : option N; cf_advertise : option (list N); cf_ifup : option N; cf_ifdown : option N;
  cf_crypto : crypto_cfg;
  cf_listen : option N; cf_peers : option (list N); cf_peer_timeout : option N; cf_keepalive : option N;
  cf_beacon_ : option cf_beacon; cf_mode : option N; cf_switch_timeout : option N; cf_claims : option (list N);
  cf_auto_claim : option bool; cf_port_forwarding : option bool;
  cf_pid_file : option N; cf_stats_file : option N; cf_statsd_ : option cf_statsd;
  cf_user : option N; cf_group : option N; cf_hook : option N; cf_hooks : list (N * N) }.

(* a --hook argument: plain script, or event:script *)
Inductive hook_arg := HPlain (s : N) | HEvent (e s : N).

Record args := {
  a_type : option N; a_device : option N; a_device_path : option N; a_fix_rp_filter : bool;
  a_ip : option N; a_ifup : option N; a_advertise : list N; a_ifdown : option N;
  a_listen : option N; a_peers : list N; a_peer_timeout : option N; a_keepalive : option N;
  a_beacon_store : option N; a_beacon_load : option N; a_beacon_interval : option N; a_beacon_password : option N;
  a_mode : option N; a_switch_timeout : option N; a_claims : list N;
  a_no_auto_claim : bool; a_no_port_forwarding : bool; a_daemon : bool;
  a_pid_file : option N; a_stats_file : option N; a_statsd_server : option N; a_statsd_prefix : option N;
  a_user : option N; a_group : option N;
  a_password : option N; a_public_key : option N; a_private_key : option N;
  a_trusted : list N; a_algos : list N; a_hook : list hook_arg }.

Definition default_crypto : crypto_cfg :=
  {| cc_password := None; cc_private := None; cc_public := None; cc_trusted := []; cc_algos := [] |}.

Definition default_config : config :=
  {| device_type := 0; device_name := DEFAULT_DEVICE_NAME; device_path := None; fix_rp_filter := false;
     ip := None; advertise := []; ifup := None; ifdown := None; crypto := default_crypto;
     listen := DEFAULT_LISTEN; peers := []; peer_timeout := 300; keepalive := None;
     beacon_store := None; beacon_load := None; beacon_interval := 3600; beacon_password := None;
     mode := 0; switch_timeout := 300; claims := []; auto_claim := true; port_forwarding := true; daemonize := false;
     pid_file := None; stats_file := None; statsd_server := None; statsd_prefix := None;
     user := None; group := None; hook := None; hooks := [] |}.

(* `if let Some(val) = x { self.f = val }` and `... { self.f = Some(val) }` *)
Definition ov {A} (x : option A) (cur : A) : A := match x with Some v => v | None => cur end.
Definition ovo {A} (x : option A) (cur : option A) : option A := match x with Some v => Some v | None => cur end.
Definition sub {A B} (x : option A) (g : A -> option B) : option B := match x with Some d => g d | None => None end.

Fixpoint hinsert (m : list (N * N)) (k v : N) : list (N * N) :=
  match m with
  | [] => [(k, v)]
  | (k', v') :: t => if k =? k' then (k, v) :: t else (k', v') :: hinsert t k v
  end.
Fixpoint hget (m : list (N * N)) (k : N) : option N :=
  match m with [] => None | (k', v) :: t => if k =? k' then Some v else hget t k end.

Definition merge_file (c : config) (f : config_file) : config :=
  {| device_type := ov (sub (cf_dev f) cfd_type) (device_type c);
     device_name := ov (sub (cf_dev f) cfd_name) (device_name c);
     device_path := ovo (sub (cf_dev f) cfd_path) (device_path c);
     fix_rp_filter := ov (sub (cf_dev f) cfd_fix) (fix_rp_filter c);
     ip := ovo (cf_ip f) (ip c);
     advertise := advertise c ++ ov (cf_advertise f) [];
     ifup := ovo (cf_ifup f) (ifup c);
     ifdown := ovo (cf_ifdown f) (ifdown c);
     crypto := {| cc_password := ovo (cc_password (cf_crypto f)) (cc_password (crypto c));
                  cc_private := ovo (cc_private (cf_crypto f)) (cc_private (crypto c));
                  cc_public := ovo (cc_public (cf_crypto f)) (cc_public (crypto c));
                  cc_trusted := cc_trusted (crypto c) ++ cc_trusted (cf_crypto f);
                  cc_algos := match cc_algos (cf_crypto f) with [] => cc_algos (crypto c) | l => l end |};
     listen := ov (cf_listen f) (listen c);
     peers := peers c ++ ov (cf_peers f) [];
     peer_timeout := ov (cf_peer_timeout f) (peer_timeout c);
     keepalive := ovo (cf_keepalive f) (keepalive c);
     beacon_store := ovo (sub (cf_beacon_ f) cfb_store) (beacon_store c);
     beacon_load := ovo (sub (cf_beacon_ f) cfb_load) (beacon_load c);
     beacon_interval := ov (sub (cf_beacon_ f) cfb_interval) (beacon_interval c);
     beacon_password := ovo (sub (cf_beacon_ f) cfb_password) (beacon_password c);
     mode := ov (cf_mode f) (mode c);
     switch_timeout := ov (cf_switch_timeout f) (switch_timeout c);
     claims := claims c ++ ov (cf_claims f) [];
     auto_claim := ov (cf_auto_claim f) (auto_claim c);
     port_forwarding := ov (cf_port_forwarding f) (port_forwarding c);
     daemonize := daemonize c;
     pid_file := ovo (cf_pid_file f) (pid_file c);
     stats_file := ovo (cf_stats_file f) (stats_file c);
     statsd_server := ovo (sub (cf_statsd_ f) cfs_server) (statsd_server c);
     statsd_prefix := ovo (sub (cf_statsd_ f) cfs_prefix) (statsd_prefix c);
     user := ovo (cf_user f) (user c);
     group := ovo (cf_group f) (group c);
     hook := ovo (cf_hook f) (hook c);
     hooks := fold_left (fun m kv => hinsert m (fst kv) (snd kv)) (cf_hooks f) (hooks c) |}.

(* the --hook loop: plain hooks overwrite `hook` (last wins), event hooks go into the map *)
Definition args_hook (cur : option N) (l : list hook_arg) : option N :=
  fold_left (fun h x => match x with HPlain s => Some s | HEvent _ _ => h end) l cur.
Definition args_hooks (cur : list (N * N)) (l : list hook_arg) : list (N * N) :=
  fold_left (fun m x => match x with HPlain _ => m | HEvent e s => hinsert m e s end) l cur.

Definition merge_args (c : config) (a : args) : config :=
  {| device_type := ov (a_type a) (device_type c);
     device_name := ov (a_device a) (device_name c);
     device_path := ovo (a_device_path a) (device_path c);
     fix_rp_filter := if a_fix_rp_filter a then true else fix_rp_filter c;
     ip := ovo (a_ip a) (ip c);
     advertise := advertise c ++ a_advertise a;
     ifup := ovo (a_ifup a) (ifup c);
     ifdown := ovo (a_ifdown a) (ifdown c);
     crypto := {| cc_password := ovo (a_password a) (cc_password (crypto c));
                  cc_private := ovo (a_private_key a) (cc_private (crypto c));
                  cc_public := ovo (a_public_key a) (cc_public (crypto c));
                  cc_trusted := cc_trusted (crypto c) ++ a_trusted a;
                  cc_algos := match a_algos a with [] => cc_algos (crypto c) | l => l end |};
     listen := ov (a_listen a) (listen c);
     peers := peers c ++ a_peers a;
     peer_timeout := ov (a_peer_timeout a) (peer_timeout c);
     keepalive := ovo (a_keepalive a) (keepalive c);
     beacon_store := ovo (a_beacon_store a) (beacon_store c);
     beacon_load := ovo (a_beacon_load a) (beacon_load c);
     beacon_interval := ov (a_beacon_interval a) (beacon_interval c);
     beacon_password := ovo (a_beacon_password a) (beacon_password c);
     mode := ov (a_mode a) (mode c);
     switch_timeout := ov (a_switch_timeout a) (switch_timeout c);
     claims := claims c ++ a_claims a;
     auto_claim := if a_no_auto_claim a then false else auto_claim c;
     port_forwarding := if a_no_port_forwarding a then false else port_forwarding c;
     daemonize := if a_daemon a then true else daemonize c;
     pid_file := ovo (a_pid_file a) (pid_file c);
     stats_file := ovo (a_stats_file a) (stats_file c);
     statsd_server := ovo (a_statsd_server a) (statsd_server c);
     statsd_prefix := ovo (a_statsd_prefix a) (statsd_prefix c);
     user := ovo (a_user a) (user c);
     group := ovo (a_group a) (group c);
     hook := args_hook (hook c) (a_hook a);
     hooks := args_hooks (hooks c) (a_hook a) |}.

Definition into_config_file (c : config) : config_file :=
  {| cf_dev := Some {| cfd_type := Some (device_type c); cfd_name := Some (device_name c); cfd_path := device_path c;
                       cfd_fix := Some (fix_rp_filter c) |};
     cf_ip := ip c; cf_advertise := Some (advertise c); cf_ifup := ifup c; cf_ifdown := ifdown c;
     cf_crypto := crypto c;
     cf_listen := Some (listen c); cf_peers := Some (peers c); cf_peer_timeout := Some (peer_timeout c);
     cf_keepalive := keepalive c;
     cf_beacon_ := Some {| cfb_store := beacon_store c; cfb_load := beacon_load c; cfb_interval := Some (beacon_interval c);
                           cfb_password := beacon_password c |};
     cf_mode := Some (mode c); cf_switch_timeout := Some (switch_timeout c); cf_claims := Some (claims c);
     cf_auto_claim := Some (auto_claim c); cf_port_forwarding := Some (port_forwarding c);
     cf_pid_file := pid_file c; cf_stats_file := stats_file c;
     cf_statsd_ := Some {| cfs_server := statsd_server c; cfs_prefix := statsd_prefix c |};
     cf_user := user c; cf_group := group c; cf_hook := hook c; cf_hooks := hooks c |}.

(* the configuration a run uses, and its round trip through the file form *)
Definition effective (f : config_file) (a : args) : config := merge_args (merge_file default_config f) a.
Definition file_roundtrip (c : config) : config := merge_file default_config (into_config_file c).

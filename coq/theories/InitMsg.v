(* Byte-level model of the handshake message codec InitMsg::{write_to, read_from} (src/crypto/init.rs),
   as a function of the byte string the parser is handed.  (Finding F11, recorded as a known finding and
   not repaired: the real caller hands it MsgBuffer::buffer(), i.e. the datagram followed by whatever stale
   bytes lie behind it in a reused receive buffer; the PeerCrypto-level model op PStale and the C01 check
   reproduce that; with a fresh buffer - every case but that op - the view is exactly the datagram.)
   Ed25519 and the salted key hash are oracles: `lookup salt hash` says which trusted key (if any) the
   4+4 byte prefix selects, `verify key signed sig` is the signature check. *)
From VpnModel Require Import Base.

(* decoded algorithm list entry: (wire id, f32 bits); ids outside 1..3 are dropped, 0 = plain *)
Record ifields := {
  f_stage : option N;
  f_hash : option bytes;
  f_ecdh : option bytes;
  f_payload : option bytes;
  f_algos : option (list (N * N) * bool) }.

Definition f0 : ifields := {| f_stage := None; f_hash := None; f_ecdh := None; f_payload := None; f_algos := None |}.

Fixpoint read_algos (k : nat) (d : bytes) (acc : list (N * N)) (plain : bool) : option (list (N * N) * bool * bytes) :=
  match k with
  | O => Some (rev acc, plain, d)
  | S k' =>
      match d with
      | a :: s3 :: s2 :: s1 :: s0 :: r =>
          let sp := be_val [s3; s2; s1; s0] in
          if a =? 0 then read_algos k' r acc true
          else if (1 <=? a) && (a <=? 3) then read_algos k' r ((a, sp) :: acc) plain
          else read_algos k' r acc plain
      | _ => None
      end
  end.

(* error classes: Err 1 = Parse ("too short"), Err 2 = Crypto (untrusted / invalid signature),
   Err 3 = CryptoInit (field problems) *)
Fixpoint parse_parts (fuel : nat) (d : bytes) (f : ifields) : res (ifields * bytes) :=
  match fuel with
  | O => Err 1
  | S fu =>
      match d with
      | [] => Err 1
      | field :: r0 =>
          if field =? 0 then Ok (f, r0) else
          match r0 with
          | l1 :: l0 :: r1 =>
              let flen := N.to_nat (l1 * 256 + l0) in
              if field =? 1 then
                if negb (Nat.eqb flen 1) then Err 3 else
                match r1 with
                | [] => Err 1
                | st :: r2 => parse_parts fu r2 {| f_stage := Some st; f_hash := f_hash f; f_ecdh := f_ecdh f; f_payload := f_payload f; f_algos := f_algos f |}
                end
              else if field =? 2 then
                if negb (Nat.eqb flen 20) then Err 3 else
                if (length r1 <? 20)%nat then Err 1 else
                parse_parts fu (skipn 20 r1) {| f_stage := f_stage f; f_hash := Some (firstn 20 r1); f_ecdh := f_ecdh f; f_payload := f_payload f; f_algos := f_algos f |}
              else if field =? 3 then
                if (length r1 <? flen)%nat then Err 1 else
                parse_parts fu (skipn flen r1) {| f_stage := f_stage f; f_hash := f_hash f; f_ecdh := Some (firstn flen r1); f_payload := f_payload f; f_algos := f_algos f |}
              else if field =? 5 then
                if (length r1 <? flen)%nat then Err 1 else
                parse_parts fu (skipn flen r1) {| f_stage := f_stage f; f_hash := f_hash f; f_ecdh := f_ecdh f; f_payload := Some (firstn flen r1); f_algos := f_algos f |}
              else if field =? 4 then
                match read_algos (flen / 5) r1 [] false with
                | None => Err 1
                | Some (l, pl, r2) => parse_parts fu r2 {| f_stage := f_stage f; f_hash := f_hash f; f_ecdh := f_ecdh f; f_payload := f_payload f; f_algos := Some (l, pl) |}
                end
              else
                if (length r1 <? flen)%nat then Err 1 else parse_parts fu (skipn flen r1) f
          | _ => Err 1
          end
      end
  end.

Inductive parsed :=
| PPing (hash ecdh : bytes) (algos : list (N * N) * bool)
| PPong (hash ecdh : bytes) (algos : list (N * N) * bool) (payload : bytes)
| PPeng (hash payload : bytes).

Section Oracles.
  Variable lookup : bytes -> bytes -> option N.             (* salt, short hash -> trusted key *)
  Variable verify : N -> bytes -> bytes -> bool.            (* key, signed bytes, signature *)

  Definition read_from (msg : bytes) : res (parsed * N) :=
    if (length msg <? 8)%nat then Err 1 else
    match lookup (firstn 4 msg) (firstn 4 (skipn 4 msg)) with
    | None => Err 2
    | Some key =>
        let body := skipn 8 msg in
        match parse_parts (S (length body)) body f0 with
        | Err c => Err c
        | Panic s => Panic s
        | Ok (f, rest) =>
            let pos := (length msg - length rest)%nat in
            match rest with
            | [] => Err 1
            | siglen :: r =>
                if (length r <? N.to_nat siglen)%nat then Err 1 else
                let sig := firstn (N.to_nat siglen) r in
                if negb (verify key (firstn pos msg) sig) then Err 2 else
                match f_stage f with
                | None => Err 3
                | Some st =>
                    match f_hash f with
                    | None => Err 3
                    | Some h =>
                        if st =? 1 then
                          match f_ecdh f, f_algos f with
                          | Some e, Some a => Ok (PPing h e a, key)
                          | _, _ => Err 3
                          end
                        else if st =? 2 then
                          match f_ecdh f, f_algos f, f_payload f with
                          | Some e, Some a, Some p => Ok (PPong h e a p, key)
                          | _, _, _ => Err 3
                          end
                        else if st =? 3 then
                          match f_payload f with Some p => Ok (PPeng h p, key) | None => Err 3 end
                        else Err 3
                    end
                end
            end
        end
    end.
End Oracles.

(* write_to: the part list of a message (without the 8-byte prefix and without the signature) *)
Definition enc_tlv (tag : N) (body : bytes) : bytes := tag :: be_enc 2 (lenN body) ++ body.
Definition enc_algos (a : list (N * N) * bool) : bytes :=
  (if snd a then 0 :: be_enc 4 2139095040 else []) ++ flat_map (fun e => fst e :: be_enc 4 (snd e)) (fst a).
Definition write_body (p : parsed) : bytes :=
  match p with
  | PPing h e a => enc_tlv 1 [1] ++ enc_tlv 2 h ++ enc_tlv 3 e ++ enc_tlv 4 (enc_algos a) ++ [0]
  | PPong h e a pl => enc_tlv 1 [2] ++ enc_tlv 2 h ++ enc_tlv 3 e ++ enc_tlv 4 (enc_algos a) ++ enc_tlv 5 pl ++ [0]
  | PPeng h pl => enc_tlv 1 [3] ++ enc_tlv 2 h ++ enc_tlv 5 pl ++ [0]
  end.

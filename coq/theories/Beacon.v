(* Model of src/beacon.rs: keystream, masking, peer-list codec, beacon text scanner.
   Peers are byte strings: 6 bytes (IPv4 + port) or 18 bytes (IPv6 + port).
   After the fixes of findings F9b (end marker searched from behind the begin marker) and F14
   (keystream block counter wraps instead of overflowing) and F9a (leading zero bytes of the masked
   body, lost in base 62, are restored up to the next valid list length 4 + 6n). *)
From VpnModel Require Import Base Base62 Sha512.

Definition TYPE_BEGIN := 0. Definition TYPE_END := 1. Definition TYPE_DATA := 2. Definition TYPE_SEED := 3.

Definition keystream (key : bytes) (ty seed iter : N) : bytes := sha512 ([ty; seed; iter] ++ key).

(* mask_with_keystream: 16 bytes of each keystream block, block counter u8 (wrapping) *)
Fixpoint mask_blocks (fuel : nat) (key : bytes) (ty seed iter : N) (data : bytes) : bytes :=
  match fuel with
  | O => data
  | S f =>
      match data with
      | [] => []
      | _ => let ks := keystream key ty seed iter in
             map (fun p => N.lxor (fst p) (snd p)) (combine (firstn 16 data) (firstn 16 ks))
             ++ mask_blocks f key ty seed ((iter + 1) mod 256) (skipn 16 data)
      end
  end.
Definition mask (key : bytes) (ty seed : N) (data : bytes) : bytes :=
  mask_blocks (S (length data / 16)) key ty seed 0 data.

Definition res_bytes_or (r : res bytes) (d : bytes) : bytes := match r with Ok b => b | _ => d end.

(* begin / end markers: first 5 characters of the base-62 text of a keystream block *)
Definition marker (key : bytes) (ty : N) : bytes := firstn 5 (res_bytes_or (to_base62 (keystream key ty 0 0)) []).

Definition encrypt_data (key : bytes) (data : bytes) : bytes :=
  let seed := nth_b 0 (sha512 data) in
  mask key TYPE_DATA seed data ++ [N.lxor seed (nth_b 0 (keystream key TYPE_SEED 0 0))].

(* returns the unmasked data and whether the seed byte verifies *)
Definition decrypt_data (key : bytes) (data : bytes) : bytes * bool :=
  match rev data with
  | [] => ([], false)
  | lastb :: r =>
      let body := rev r in
      let seed := N.lxor lastb (nth_b 0 (keystream key TYPE_SEED 0 0)) in
      let plain := mask key TYPE_DATA seed body in
      (plain, seed =? nth_b 0 (sha512 plain))
  end.

Definition is_v4 (p : bytes) : bool := Nat.eqb (length p) 6.

(* peerlist_encode: hour stamp (16 bit), count of v4, v4 entries, v6 entries; masked; base 62 *)
Definition peerlist_plain (hour : N) (peers : list bytes) : bytes :=
  let v4 := filter is_v4 peers in
  let v6 := filter (fun p => negb (is_v4 p)) peers in
  be_enc 2 hour ++ [lenN v4 mod 256] ++ concat v4 ++ concat v6.

Definition peerlist_encode (key : bytes) (hour : N) (peers : list bytes) : bytes :=
  res_bytes_or (to_base62 (encrypt_data key (peerlist_plain hour peers))) [].

Fixpoint chunks (n : nat) (k : nat) (l : bytes) : list bytes :=
  match k with
  | O => []
  | S k' => firstn n l :: chunks n k' (skipn n l)
  end.

(* restore dropped leading zero bytes: `while len < 4 || (len - 4) % 6 != 0 { insert(0, 0) }` *)
Definition need_pad (n : nat) : nat := if (n <? 4)%nat then (4 - n)%nat else ((6 - (n - 4) mod 6) mod 6)%nat.
Definition pad_list (d : bytes) : bytes := zeros (need_pad (length d)) ++ d.

(* peerlist_decode on already sanitised text; ttl = None means no age check *)
Definition peerlist_decode (key : bytes) (now_hour : N) (ttl : option N) (text : bytes) : list bytes :=
  match from_base62 text with
  | Ok data0 =>
      let data := pad_list data0 in
      let '(plain, okseed) := decrypt_data key data in
      if negb okseed then [] else
      let thn := be_val (firstn 2 plain) in
      let too_old := match ttl with
                     | None => false
                     | Some t => (t <? (now_hour + 65536 - thn) mod 65536) && (t <? (thn + 65536 - now_hour) mod 65536)
                     end in
      if too_old then [] else
      let v4count := N.to_nat (nth_b 2 plain) in
      let rest := (length plain - 3)%nat in
      if (rest <? v4count * 6)%nat || negb (Nat.eqb ((rest - v4count * 6) mod 18) 0) then [] else
      let body := skipn 3 plain in
      chunks 6 v4count body ++ chunks 18 ((rest - v4count * 6) / 18) (skipn (v4count * 6) body)
  | _ => []
  end.

Definition encode (key : bytes) (hour : N) (peers : list bytes) : bytes :=
  marker key TYPE_BEGIN ++ peerlist_encode key hour peers ++ marker key TYPE_END.

Definition is_alnum (c : N) : bool :=
  ((48 <=? c) && (c <=? 57)) || ((65 <=? c) && (c <=? 90)) || ((97 <=? c) && (c <=? 122)).
Definition sanitize (text : bytes) : bytes := filter is_alnum text.

(* str::find: index of the first occurrence *)
Fixpoint is_prefix (p l : bytes) : bool :=
  match p, l with
  | [], _ => true
  | x :: p', y :: l' => (x =? y) && is_prefix p' l'
  | _ :: _, [] => false
  end.
Fixpoint find (pat l : bytes) : option nat :=
  if is_prefix pat l then Some O
  else match l with
       | [] => None
       | _ :: t => option_map S (find pat t)
       end.

(* the scanner of BeaconSerializer::decode over the sanitised text `data`, from position pos *)
Fixpoint scan (fuel : nat) (key : bytes) (now_hour : N) (ttl : option N) (bgn en : bytes) (data : bytes) (pos : nat)
  : list bytes :=
  match fuel with
  | O => []
  | S f =>
      match find bgn (skipn pos data) with
      | None => []
      | Some found =>
          let p := (pos + found)%nat in
          let start_pos := (p + length bgn)%nat in
          match find en (skipn start_pos data) with
          | None => []
          | Some found2 =>
              let end_pos := (start_pos + found2)%nat in
              peerlist_decode key now_hour ttl (firstn (end_pos - start_pos) (skipn start_pos data))
              ++ scan f key now_hour ttl bgn en data start_pos
          end
      end
  end.

Definition decode (key : bytes) (now_hour : N) (ttl : option N) (text : bytes) : list bytes :=
  let data := sanitize text in
  scan (S (length data)) key now_hour ttl (marker key TYPE_BEGIN) (marker key TYPE_END) data 0.

From VpnModel Require Import Base Base62 Base62Proofs Keys CoreProofs.
From Coq Require Import ZifyBool ZifyNat ZifyN.

Lemma zeros_length : forall n, length (zeros n) = n.
Proof. induction n; simpl; congruence. Qed.

Lemma strip0_pad : forall l, zeros (length l - length (strip0 l)) ++ strip0 l = l.
Proof.
  induction l as [|b t IH]; [reflexivity|]. cbn [strip0]. destruct b as [|p].
  - pose proof (strip0_spec_len t) as Hl. cbn [length].
    replace (S (length t) - length (strip0 t))%nat with (S (length t - length (strip0 t))) by lia.
    cbn [zeros app]. rewrite IH. reflexivity.
  - rewrite Nat.sub_diag. reflexivity.
Qed.

(* C18-T1: every 32-byte key printed by key generation is accepted back and denotes the same bytes,
   leading zero bytes included *)
Theorem accept_generated : forall key, all_bytes key -> length key = 32%nat ->
  exists text, to_base62 key = Ok text /\ parse_key32 text = Ok key.
Proof.
  intros key Hb Hl. destruct (base62_roundtrip key Hb) as (s & H1 & H2). exists s. split; [exact H1|].
  unfold parse_key32. rewrite H2. unfold pad32.
  pose proof (strip0_spec_len key) as Hs.
  assert (Nat.ltb 32 (length (strip0 key)) = false) as -> by (apply Nat.ltb_ge; lia).
  rewrite <- Hl. rewrite strip0_pad. reflexivity.
Qed.

Theorem parse_key32_total : forall text, is_panic (parse_key32 text) = false.
Proof.
  intros text. unfold parse_key32. pose proof (from_base62_total text) as H.
  destruct (from_base62 text) as [b|c|s]; [|reflexivity|discriminate].
  unfold pad32. destruct (32 <? length b)%nat; reflexivity.
Qed.

Lemma pad32_len : forall b k, pad32 b = Ok k -> length k = 32%nat.
Proof.
  intros b k. unfold pad32. destruct (Nat.ltb 32 (length b)) eqn:E; [discriminate|]. intros H.
  apply Nat.ltb_ge in E.
  assert (Hk : k = zeros (32 - length b) ++ b) by congruence.
  rewrite Hk, app_length, zeros_length. lia.
Qed.

Theorem parse_key32_len : forall text k, parse_key32 text = Ok k -> length k = 32%nat.
Proof.
  intros text k H. unfold parse_key32 in H. destruct (from_base62 text) as [b|c|s]; try discriminate.
  eapply pad32_len. exact H.
Qed.

Section WithOracles.
  Variable kdf : bytes -> bytes.
  Variable pk_of : bytes -> bytes.
  Hypothesis kdf_len : forall p, length (kdf p) = 32%nat /\ all_bytes (kdf p).
  Hypothesis pk_len : forall s, length (pk_of s) = 32%nat /\ all_bytes (pk_of s).

  (* C18-T2: password only -> the key pair is a function of the password (hence equal on every node
     and run); the printed pair is accepted as private/public key and selects the same keys *)
  Theorem password_keys : forall pw,
    crypto_new kdf pk_of {| cfg_password := Some pw; cfg_private := None; cfg_public := None; cfg_trusted := [] |}
    = Ok (kdf pw, pk_of (kdf pw), [pk_of (kdf pw)]).
  Proof. intros. reflexivity. Qed.

  Theorem printed_pair_accepted : forall seed, all_bytes seed -> length seed = 32%nat ->
    exists tpriv tpub,
      print_keypair pk_of seed = (Ok tpriv, Ok tpub) /\
      crypto_new kdf pk_of {| cfg_password := None; cfg_private := Some tpriv; cfg_public := Some tpub; cfg_trusted := [tpub] |}
        = Ok (seed, pk_of seed, [pk_of seed]) /\
      crypto_new kdf pk_of {| cfg_password := None; cfg_private := Some tpriv; cfg_public := None; cfg_trusted := [] |}
        = Ok (seed, pk_of seed, [pk_of seed]).
  Proof.
    intros seed Hb Hl. destruct (pk_len seed) as [Pl Pb].
    destruct (accept_generated seed Hb Hl) as (tpriv & T1 & T2).
    destruct (accept_generated (pk_of seed) Pb Pl) as (tpub & U1 & U2).
    exists tpriv, tpub. unfold print_keypair. rewrite T1, U1. split; [reflexivity|].
    unfold crypto_new. cbn [cfg_private cfg_public cfg_password cfg_trusted]. rewrite T2, U2.
    rewrite list_eqb_refl. split; reflexivity.
  Qed.

  (* C18-T3: two password-only nodes trust each other iff the derived public keys are equal *)
  Theorem password_trust : forall p1 p2 s1 k1 t1 s2 k2 t2,
    crypto_new kdf pk_of {| cfg_password := Some p1; cfg_private := None; cfg_public := None; cfg_trusted := [] |} = Ok (s1, k1, t1) ->
    crypto_new kdf pk_of {| cfg_password := Some p2; cfg_private := None; cfg_public := None; cfg_trusted := [] |} = Ok (s2, k2, t2) ->
    (In k2 t1 <-> k1 = k2) /\ (In k1 t2 <-> k1 = k2).
  Proof.
    intros p1 p2 s1 k1 t1 s2 k2 t2 H1 H2. rewrite password_keys in H1, H2. inversion H1; inversion H2; subst.
    split; split; intros H; try (destruct H as [H|[]]; congruence); left; congruence.
  Qed.
End WithOracles.

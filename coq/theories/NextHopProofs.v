(* C12, last sentence, as an invariant of every reachable node state: every next hop the routing table can produce - the owner of a
   claim or of a cached / learned address - is a current peer (RT), carried by the auxiliary fact that handshake objects in the pending
   map never hold a crypto core (PI: so they cannot deliver data that would teach the table an address of a non-peer). *)
From VpnModel Require Import Base RangeMatch Table TableProofs Nonce Replay Core Conn PeerCrypto NodeInfo Interval Node NodeProofs InitProofs TrustProofs SurviveProofs.

(* C12 at node level, as an invariant over every step: every next hop the table can produce is a current peer. *)

Definition cpeers (t : table) : list N := map c_peer (claims t).
Definition epeers (t : table) : list N := map e_peer (cache t).

Lemma in_map_filter : forall (A B : Type) (f : A -> B) (g : A -> bool) l x, In x (map f (filter g l)) -> In x (map f l).
Proof. intros A B f g l x H. apply in_map_iff in H. destruct H as (y & E & Hy). apply filter_In in Hy. apply in_map_iff. exists y. split; [exact E|apply Hy]. Qed.

Lemma hk_cpeers : forall t now x, In x (cpeers (table_housekeep t now)) -> In x (cpeers t).
Proof. intros t now x. unfold cpeers, table_housekeep. cbn [claims]. apply in_map_filter. Qed.
Lemma hk_epeers : forall t now x, In x (epeers (table_housekeep t now)) -> In x (epeers t).
Proof. intros t now x. unfold epeers, table_housekeep. cbn [cache]. apply in_map_filter. Qed.

Lemma sc_loop_peers : forall peer now cto es new removed,
  map c_peer (fst (fst (sc_loop peer now cto es new removed))) = map c_peer es.
Proof.
  intros peer now cto es. induction es as [|e t IH]; intros new removed; [reflexivity|]. cbn [sc_loop].
  destruct (c_peer e =? peer).
  - destruct (position (c_base e) (c_prefix e) new) as [pos|].
    + specialize (IH (swap_remove pos new) removed). destruct (sc_loop peer now cto t (swap_remove pos new) removed) as [[t' n'] r']. cbn [fst map c_peer] in *. rewrite IH. reflexivity.
    + specialize (IH new true). destruct (sc_loop peer now cto t new true) as [[t' n'] r']. cbn [fst map c_peer] in *. rewrite IH. reflexivity.
  - specialize (IH new removed). destruct (sc_loop peer now cto t new removed) as [[t' n'] r']. cbn [fst map] in *. rewrite IH. reflexivity.
Qed.

Lemma map_zero_epeers : forall peer (l : list centry),
  map e_peer (map (fun e => if e_peer e =? peer then {| e_addr := e_addr e; e_peer := e_peer e; e_timeout := 0%Z |} else e) l) = map e_peer l.
Proof. intros peer l. induction l as [|e t IH]; [reflexivity|]. cbn [map]. rewrite IH. destruct (e_peer e =? peer); reflexivity. Qed.
Lemma map_zero_cpeers : forall peer (l : list claim),
  map c_peer (map (fun c => if c_peer c =? peer then {| c_peer := c_peer c; c_base := c_base c; c_prefix := c_prefix c; c_timeout := 0%Z |} else c) l) = map c_peer l.
Proof. intros peer l. induction l as [|e t IH]; [reflexivity|]. cbn [map]. rewrite IH. destruct (c_peer e =? peer); reflexivity. Qed.

Lemma sc_cpeers : forall t now peer new x, In x (cpeers (table_set_claims t now peer new)) -> x = peer \/ In x (cpeers t).
Proof.
  intros t now peer new x H. unfold table_set_claims in H.
  pose proof (sc_loop_peers peer now (claim_timeout t) (claims t) new false) as Hp.
  destruct (sc_loop peer now (claim_timeout t) (claims t) new false) as [[es rest] removed]. cbn [fst] in Hp.
  apply hk_cpeers in H. unfold cpeers in H. cbn [claims] in H. rewrite map_app in H. apply in_app_or in H. destruct H as [H|H].
  - right. unfold cpeers. rewrite <- Hp. exact H.
  - left. rewrite map_map in H. cbn [c_peer] in H. apply in_map_iff in H. destruct H as (r & E & _). symmetry. exact E.
Qed.
Lemma sc_epeers : forall t now peer new x, In x (epeers (table_set_claims t now peer new)) -> In x (epeers t).
Proof.
  intros t now peer new x H. unfold table_set_claims in H.
  destruct (sc_loop peer now (claim_timeout t) (claims t) new false) as [[es rest] removed].
  apply hk_epeers in H. unfold epeers in H. cbn [cache] in H. destruct removed; [rewrite map_zero_epeers in H|]; exact H.
Qed.

Lemma rc_cpeers : forall t now peer x, (0 < now)%Z -> In x (cpeers (table_remove_claims t now peer)) -> In x (cpeers t) /\ x <> peer.
Proof.
  intros t now peer x Hnow H. split.
  - unfold table_remove_claims in H. apply hk_cpeers in H. unfold cpeers in H. cbn [claims] in H. rewrite map_zero_cpeers in H. exact H.
  - destruct (remove_claims_clean t now peer Hnow) as (R1 & _). unfold cpeers in H. apply in_map_iff in H. destruct H as (c & E & Hc). subst x. apply R1. exact Hc.
Qed.
Lemma rc_epeers : forall t now peer x, (0 < now)%Z -> In x (epeers (table_remove_claims t now peer)) -> In x (epeers t) /\ x <> peer.
Proof.
  intros t now peer x Hnow H. split.
  - unfold table_remove_claims in H. apply hk_epeers in H. unfold epeers in H. cbn [cache] in H. rewrite map_zero_epeers in H. exact H.
  - destruct (remove_claims_clean t now peer Hnow) as (_ & R2 & _). unfold epeers in H. apply in_map_iff in H. destruct H as (e & E & He). subst x. apply R2. exact He.
Qed.

Lemma ci_epeers : forall c a p to x, In x (map e_peer (cache_insert c a p to)) -> x = p \/ In x (map e_peer c).
Proof.
  intros c a p to x H. unfold cache_insert in H. cbn [map e_peer] in H. destruct H as [H|H]; [left; symmetry; exact H|right; eapply in_map_filter; exact H].
Qed.
Lemma tc_epeers : forall t now a p x, In x (epeers (table_cache t now a p)) -> x = p \/ In x (epeers t).
Proof. intros t now a p x H. unfold table_cache, epeers in *. cbn [set_cache cache] in H. apply ci_epeers in H. exact H. Qed.
Lemma tc_cpeers : forall t now a p, cpeers (table_cache t now a p) = cpeers t.
Proof. reflexivity. Qed.

Lemma best_claim_in : forall cs a best c, best_claim cs a best = Some c -> In c cs \/ best = Some c.
Proof.
  induction cs as [|h t IH]; intros a best c H; [right; exact H|]. cbn [best_claim] in H.
  destruct ((match best with None => true | Some b => c_prefix b <? c_prefix h end) && range_matches (c_base h) (c_prefix h) a).
  - apply IH in H. destruct H as [H|H]; [left; right; exact H|left; left; inversion H; reflexivity].
  - apply IH in H. destruct H as [H|H]; [left; right; exact H|right; exact H].
Qed.

Lemma lk_peers : forall t now a,
  cpeers (snd (table_lookup t now a)) = cpeers t /\
  (forall x, In x (epeers (snd (table_lookup t now a))) -> In x (epeers t) \/ In x (cpeers t)) /\
  (forall p, fst (table_lookup t now a) = Some p -> In p (epeers t) \/ In p (cpeers t)).
Proof.
  intros t now a. unfold table_lookup. destruct (cache_get (cache t) a) as [e|] eqn:Eg.
  - cbn [fst snd]. split; [reflexivity|]. split; [intros x H; left; exact H|].
    intros p H. inversion H; subst p. left. unfold epeers. apply in_map.
    clear - Eg. induction (cache t) as [|h tl IH]; [discriminate|]. cbn [cache_get] in Eg. destruct (list_eqb (e_addr h) a); [inversion Eg; left; reflexivity|right; apply IH; exact Eg].
  - destruct (best_claim (claims t) a None) as [c|] eqn:Eb.
    + apply best_claim_in in Eb. destruct Eb as [Hin|Hn]; [|discriminate].
      cbn [fst snd]. split; [reflexivity|]. split.
      * intros x H. unfold epeers in H. cbn [set_cache cache] in H. apply ci_epeers in H. destruct H as [->|H]; [right; unfold cpeers; apply in_map; exact Hin|left; exact H].
      * intros p H. inversion H; subst p. right. unfold cpeers. apply in_map. exact Hin.
    + cbn [fst snd]. split; [reflexivity|]. split; [intros x H; left; exact H|intros p H; discriminate].
Qed.

(* ------------------------------------------------------------------------------------------------------------------------- *)


Definition uninit (p : peer_crypto) : Prop := pc_plain p = false /\ pc_core p = None.

Lemma init_decrypt_ok : forall ok c p c' b, init_decrypt ok c p = (c', Some b) -> ok b = true.
Proof.
  intros ok c p c' b H. unfold init_decrypt in H.
  destruct c as [c0|]; destruct p as [d|d].
  - destruct (core_decrypt c0 d) as [c1 [pl|e|s]]; try discriminate.
    destruct (ok pl) eqn:E; [inversion H; subst; exact E|discriminate].
  - destruct (core_decrypt c0 (dgram_of_bytes d)); discriminate.
  - discriminate.
  - destruct (ok d) eqn:E; [inversion H; subst; exact E|discriminate].
Qed.

Lemma handle_init_success_ok : forall ok s m s' pl ini rep,
  handle_init ok s m = (s', Ok (ISuccess pl ini), rep) -> ok pl = true.
Proof.
  intros ok s m s' pl ini rep H. unfold handle_init in H.
  repeat (match type of H with
          | context [match ?x with _ => _ end] => destruct x eqn:?
          | context [if ?x then _ else _] => destruct x eqn:?
          end; try discriminate);
  inversion H; subst; eapply init_decrypt_ok; eassumption.
Qed.

Definition handle_post (ok : bytes -> bool) (p' : peer_crypto) (r : res msg_result) : Prop :=
  match r with
  | Ok (MMessage _ _) => False
  | Ok (MInitialized pl) | Ok (MInitializedWithReply pl) => ok pl = true
  | _ => uninit p'
  end.

Lemma uninit_set : forall p i r c f, uninit p -> uninit (pc_set p i r (pc_plain p) (pc_core p) c f).
Proof. intros p i r c f H. exact H. Qed.

Lemma uninit_handle : forall ok p w, uninit p -> handle_post ok (fst (fst (pc_handle ok p w))) (snd (fst (pc_handle ok p w))).
Proof.
  intros ok p w [Hp Hc]. destruct w as [m| | |d|b]; cbn [pc_handle].
  - unfold pc_handle_init. destruct (pc_init p) as [i|]; [|split; assumption].
    destruct (handle_init ok i m) as [[i' r0] reply] eqn:Eh.
    destruct r0 as [[|payload ini]|e|s]; cbn [fst snd handle_post]; try (split; assumption).
    pose proof (handle_init_success_ok _ _ _ _ _ _ _ Eh) as Hok.
    destruct ini.
    + destruct (rot_new false (pc_fresh p)) as [[rs rm] fr]. cbn [fst snd handle_post]. exact Hok.
    + destruct (i_core i') as [c0|].
      * destruct (rot_new true (pc_fresh p)) as [[rs rm] fr]. destruct rm as [m1|].
        -- destruct (core_encrypt c0 _) as [c1 dd]. cbn [fst snd handle_post]. exact Hok.
        -- cbn [fst snd handle_post]. split; assumption.
      * cbn [fst snd handle_post]. exact Hok.
  - destruct (pc_init p); cbn [fst snd handle_post]; split; assumption.
  - cbn [fst snd handle_post]; split; assumption.
  - rewrite Hp, Hc. cbn [fst snd handle_post]; split; assumption.
  - rewrite Hp, Hc. cbn [fst snd handle_post]; split; assumption.
Qed.

Lemma uninit_tick : forall p, uninit p -> uninit (fst (fst (pc_every_second p))).
Proof.
  intros p [Hp Hc]. unfold pc_every_second. rewrite Hc. cbn [option_map].
  destruct (match pc_init p with Some i => let '(i', r) := init_every_second i in (Some i', r) | None => (None, Ok None) end) as [io ir].
  destruct ir as [out|e|s]; cbn [fst]; try (split; [exact Hp|reflexivity || exact Hc]).
  destruct out as [m|]; cbn [fst]; try (split; [exact Hp|reflexivity]).
  destruct (pc_rot p) as [rs|]; cbn [fst]; try (split; [exact Hp|reflexivity]).
  destruct (pc_counter p + 1 <? ROTATE_INTERVAL); cbn [fst]; try (split; [exact Hp|reflexivity]).
  destruct (rot_cycle rs (pc_fresh p)) as [[[rs' rm] rk] fr].
  destruct rk as [k|]; cbn [fst option_map]; try (split; [exact Hp|reflexivity]).
  destruct rm as [m|]; cbn [fst]; try (split; [exact Hp|reflexivity]).
  unfold pc_seal. cbn [pc_set pc_plain pc_core]. rewrite Hp. cbn [fst]. split; reflexivity.
Qed.

Lemma uninit_new : forall node salt payload key trusted al fresh rnd, uninit (pc_new node salt payload key trusted al fresh rnd).
Proof. intros. split; reflexivity. Qed.

Lemma uninit_initialize : forall p, uninit p -> uninit (fst (pc_initialize p)).
Proof.
  intros p H. unfold pc_initialize. destruct (pc_init p) as [i|]; [|exact H].
  destruct (negb (i_stage i =? STAGE_PING)); [exact H|]. destruct (init_send_ping i) as [i' m]. exact H.
Qed.

(* ------------------------------------------------------------------------------------------------------------------------- *)
(* node layer *)
Definition hops (t : table) (x : N) : Prop := In x (cpeers t) \/ In x (epeers t).
Definition RT (n : node) : Prop := forall x, hops (n_table n) x -> ahas (n_peers n) x = true.
Definition PI (n : node) : Prop := forall a pc, aget (n_pending n) a = Some pc -> uninit pc.
Definition PIx (n : node) (src : N) : Prop := forall a pc, a <> src -> aget (n_pending n) a = Some pc -> uninit pc.

(* "peers only grow, next hops only shrink, pending objects stay uninitialised" *)
Definition grows (n n' : node) : Prop :=
  (forall x, ahas (n_peers n) x = true -> ahas (n_peers n') x = true) /\
  (forall x, hops (n_table n') x -> hops (n_table n) x) /\
  (PI n -> PI n').

Lemma grows_refl : forall n, grows n n.
Proof. intros n. split; [|split]; intros; assumption. Qed.
Lemma grows_trans : forall a b c, grows a b -> grows b c -> grows a c.
Proof. intros a b c (P1 & T1 & I1) (P2 & T2 & I2). split; [|split]; intros; auto. Qed.
Lemma rt_grows : forall n n', grows n n' -> RT n -> RT n'.
Proof. intros n n' (P & T & _) H x Hx. apply P, H, T, Hx. Qed.
Lemma pi_grows : forall n n', grows n n' -> PI n -> PI n'.
Proof. intros n n' (_ & _ & I). exact I. Qed.

Lemma grows_eq : forall n n', n_peers n' = n_peers n -> n_table n' = n_table n -> n_pending n' = n_pending n -> grows n n'.
Proof. intros n n' Hp Ht Hq. unfold grows, PI. rewrite Hp, Ht, Hq. split; [|split]; intros; eauto. Qed.

Lemma pi_aset : forall n n' a pc, n_pending n' = aset (n_pending n) a pc -> uninit pc -> PIx n a -> PI n'.
Proof.
  intros n n' a pc Hq Hu H b pc' Hb. rewrite Hq in Hb. destruct (N.eq_dec a b) as [<-|Hne].
  - rewrite aget_aset_same in Hb. inversion Hb; subst. exact Hu.
  - rewrite aget_aset_other in Hb by exact Hne. apply (H b); [congruence|exact Hb].
Qed.
Lemma pi_pix : forall n a, PI n -> PIx n a.
Proof. intros n a H b pc _ Hb. apply (H b). exact Hb. Qed.
Lemma pi_adel : forall n n' a, n_pending n' = adel (n_pending n) a -> PIx n a -> PI n'.
Proof.
  intros n n' a Hq H b pc Hb. rewrite Hq in Hb. destruct (N.eq_dec b a) as [->|Hne].
  - rewrite aget_adel_same in Hb. discriminate.
  - rewrite aget_adel_other in Hb by congruence. apply (H b); assumption.
Qed.

Lemma new_instance_uninit : forall n salt, uninit (snd (new_instance n salt)).
Proof. intros. unfold new_instance. cbn [snd]. apply uninit_new. Qed.
Lemma new_instance_state : forall n salt, n_peers (fst (new_instance n salt)) = n_peers n /\ n_table (fst (new_instance n salt)) = n_table n /\ n_pending (fst (new_instance n salt)) = n_pending n.
Proof. intros. unfold new_instance. cbn. auto. Qed.

Lemma connect_sock_grows : forall salts n a, grows n (fst (connect_sock salts n a)).
Proof.
  intros salts n a. destruct (connect_sock_peers salts n a) as [Hp Ht].
  unfold grows. rewrite Hp, Ht. split; [|split]; intros; auto.
  unfold connect_sock. destruct (ahas (n_peers n) a || memN a (n_own n) || ahas (n_pending n) a); [assumption|].
  pose proof (new_instance_uninit n (salt_for salts (c_num (n_cfg n)) a)) as Hu.
  pose proof (new_instance_state n (salt_for salts (c_num (n_cfg n)) a)) as (_ & _ & Hq).
  destruct (new_instance n _) as [n1 pc]. cbn [fst snd] in *.
  pose proof (uninit_initialize pc Hu) as Hi. destruct (pc_initialize pc) as [pc' [w|e|s]]; cbn [fst] in *.
  - eapply pi_aset; [reflexivity|exact Hi|]. apply pi_pix. unfold PI. rewrite Hq. assumption.
  - unfold PI. rewrite Hq. assumption.
  - unfold PI. rewrite Hq. assumption.
Qed.

Lemma fold_grows : forall (A : Type) (f : node * list effect -> A -> node * list effect) (l : list A) st,
  (forall st x, grows (fst st) (fst (f st x))) -> grows (fst st) (fst (fold_left f l st)).
Proof.
  intros A f l. induction l as [|x t IH]; intros st H; [apply grows_refl|]. cbn [fold_left].
  eapply grows_trans; [apply H|apply IH; exact H].
Qed.

Lemma connect_grows : forall salts n addrs, grows n (fst (connect salts n addrs)).
Proof.
  intros. unfold connect. destruct (existsb _ addrs); [apply grows_refl|].
  apply (fold_grows _ _ addrs (n, [])). intros [m fx] a. cbn [fst].
  pose proof (connect_sock_grows salts m a) as G. destruct (connect_sock salts m a) as [m' fx']. exact G.
Qed.

Lemma connect_to_peers_grows : forall salts ps n, grows n (fst (connect_to_peers salts n ps)).
Proof.
  intros. unfold connect_to_peers. apply (fold_grows _ _ ps (n, [])). intros [m fx] p. cbn [fst].
  destruct (existsb _ (map addr_of_bytes (pi_addrs p))); [apply grows_refl|].
  pose proof (connect_grows salts m (map addr_of_bytes (pi_addrs p))) as G.
  destruct (pi_node p) as [id|].
  - destruct (list_eqb id _); [apply grows_eq; reflexivity|]. destruct (existsb _ (n_peers m)); [apply grows_refl|].
    destruct (connect salts m _) as [m' fx']. exact G.
  - destruct (connect salts m _) as [m' fx']. exact G.
Qed.

Lemma hops_sc : forall t now peer new x, hops (table_set_claims t now peer new) x -> x = peer \/ hops t x.
Proof.
  intros t now peer new x [H|H].
  - apply sc_cpeers in H. destruct H as [->|H]; [left; reflexivity|right; left; exact H].
  - apply sc_epeers in H. right; right; exact H.
Qed.
Lemma hops_rc : forall t now peer x, (0 < now)%Z -> hops (table_remove_claims t now peer) x -> hops t x /\ x <> peer.
Proof.
  intros t now peer x Hnow [H|H].
  - apply rc_cpeers in H; [|exact Hnow]. destruct H as [H Hne]. split; [left; exact H|exact Hne].
  - apply rc_epeers in H; [|exact Hnow]. destruct H as [H Hne]. split; [right; exact H|exact Hne].
Qed.
Lemma hops_tc : forall t now a p x, hops (table_cache t now a p) x -> x = p \/ hops t x.
Proof.
  intros t now a p x [H|H].
  - rewrite tc_cpeers in H. right; left; exact H.
  - apply tc_epeers in H. destruct H as [->|H]; [left; reflexivity|right; right; exact H].
Qed.
Lemma hops_hk : forall t now x, hops (table_housekeep t now) x -> hops t x.
Proof. intros t now x [H|H]; [left; eapply hk_cpeers; exact H|right; eapply hk_epeers; exact H]. Qed.
Lemma hops_lk : forall t now a x, hops (snd (table_lookup t now a)) x -> hops t x.
Proof.
  intros t now a x H. destruct (lk_peers t now a) as (Hc & He & _). destruct H as [H|H].
  - rewrite Hc in H. left; exact H.
  - apply He in H. destruct H as [H|H]; [right|left]; exact H.
Qed.

Lemma upi_RT : forall salts now n addr info, RT n -> RT (fst (update_peer_info salts now n addr info)).
Proof.
  intros salts now n addr info H. unfold update_peer_info. destruct (aget (n_peers n) addr) as [pd|] eqn:Ea; [|exact H].
  destruct info as [i|].
  - eapply rt_grows; [apply connect_to_peers_grows|]. intros x Hx. cbn [upd n_peers n_table] in *.
    rewrite ahas_aset. apply hops_sc in Hx. destruct Hx as [->|Hx]; [rewrite N.eqb_refl; reflexivity|].
    rewrite (H x Hx). apply Bool.orb_true_r.
  - cbn [fst]. intros x Hx. cbn [upd n_peers n_table] in *. apply ahas_aset_keep. apply H. exact Hx.
Qed.

Lemma upi_PI : forall salts now n addr info, PI n -> PI (fst (update_peer_info salts now n addr info)).
Proof.
  intros salts now n addr info H. unfold update_peer_info. destruct (aget (n_peers n) addr) as [pd|] eqn:Ea; [|exact H].
  destruct info as [i|].
  - eapply pi_grows; [apply connect_to_peers_grows|]. exact H.
  - exact H.
Qed.

Lemma anp_RT : forall salts now n addr info, RT n -> RT (fst (add_new_peer salts now n addr info)).
Proof.
  intros salts now n addr info H. unfold add_new_peer. destruct (aget (n_pending n) addr) as [pc|]; [|exact H].
  apply upi_RT. intros x Hx. cbn [upd n_peers n_table] in *. apply ahas_aset_keep. apply H. exact Hx.
Qed.

Lemma anp_PI : forall salts now n addr info, PIx n addr -> PI (fst (add_new_peer salts now n addr info)).
Proof.
  intros salts now n addr info H. unfold add_new_peer. destruct (aget (n_pending n) addr) as [pc|] eqn:Ea.
  - apply upi_PI. eapply pi_adel; [|exact H]. reflexivity.
  - cbn [fst]. intros b pc Hb. apply (H b); [|exact Hb]. intros ->. congruence.
Qed.

Lemma remove_peer_RT : forall now n addr, (0 < now)%Z -> RT n -> RT (remove_peer now n addr).
Proof.
  intros now n addr Hnow H. unfold remove_peer. destruct (aget (n_peers n) addr); [|exact H].
  intros x Hx. cbn [upd n_peers n_table] in *. apply hops_rc in Hx; [|exact Hnow]. destruct Hx as [Hx Hne].
  rewrite ahas_adel_other by exact Hne. apply H. exact Hx.
Qed.
Lemma remove_peer_pending : forall now n addr, n_pending (remove_peer now n addr) = n_pending n.
Proof. intros. unfold remove_peer. destruct (aget (n_peers n) addr); reflexivity. Qed.

Lemma hr_RT : forall salts now n src r reply, (0 < now)%Z -> RT n ->
  (forall ty body, r = MMessage ty body -> ahas (n_peers n) src = true) ->
  RT (fst (handle_result salts now n src r reply)).
Proof.
  intros salts now n src r reply Hnow H Hm. destruct r as [ty body|p|p| |]; cbn [handle_result].
  - destruct (ty =? MESSAGE_TYPE_DATA).
    + destruct (parse_frame (n_cfg n) body) as [[s d]|e|s]; cbn [fst]; try exact H.
      destruct (c_learning (n_cfg n)); [|exact H]. intros x Hx. cbn [upd n_peers n_table] in *.
      apply hops_tc in Hx. destruct Hx as [->|Hx]; [eapply Hm; reflexivity|apply H; exact Hx].
    + destruct (ty =? MESSAGE_TYPE_NODE_INFO).
      * destruct (ni_decode body) as [info|e|s]; [apply upi_RT; exact H|exact H|exact H].
      * destruct (ty =? MESSAGE_TYPE_KEEPALIVE); [apply upi_RT; exact H|].
        destruct (ty =? MESSAGE_TYPE_CLOSE); [cbn [fst]; apply remove_peer_RT; assumption|exact H].
  - destruct (ni_decode p) as [info|e|s]; [apply anp_RT; exact H|exact H|exact H].
  - destruct (ni_decode p) as [info|e|s]; [|exact H|exact H].
    pose proof (anp_RT salts now n src info H) as G. destruct (add_new_peer salts now n src info) as [n1 fx]. exact G.
  - exact H.
  - exact H.
Qed.

(* pending objects: any result is fine when the whole pending map is already uninitialised *)
Lemma hr_PI : forall salts now n src r reply, PI n -> PI (fst (handle_result salts now n src r reply)).
Proof.
  intros salts now n src r reply H. destruct r as [ty body|p|p| |]; cbn [handle_result].
  - destruct (ty =? MESSAGE_TYPE_DATA).
    + destruct (parse_frame (n_cfg n) body) as [[s d]|e|s]; cbn [fst]; try exact H.
      destruct (c_learning (n_cfg n)); exact H.
    + destruct (ty =? MESSAGE_TYPE_NODE_INFO).
      * destruct (ni_decode body) as [info|e|s]; [apply upi_PI; exact H|exact H|exact H].
      * destruct (ty =? MESSAGE_TYPE_KEEPALIVE); [apply upi_PI; exact H|].
        destruct (ty =? MESSAGE_TYPE_CLOSE); [|exact H]. cbn [fst]. unfold PI. rewrite remove_peer_pending. exact H.
  - destruct (ni_decode p) as [info|e|s]; [apply anp_PI, pi_pix; exact H|exact H|exact H].
  - destruct (ni_decode p) as [info|e|s]; [|exact H|exact H].
    pose proof (anp_PI salts now n src info (pi_pix _ _ H)) as G. destruct (add_new_peer salts now n src info) as [n1 fx]. exact G.
  - exact H.
  - exact H.
Qed.

(* ... and when the object at src has just completed its handshake with a decodable payload, it leaves the pending map *)
Lemma hr_PI_init : forall salts now n src r reply p, PIx n src ->
  (r = MInitialized p \/ r = MInitializedWithReply p) -> payload_ok p = true ->
  PI (fst (handle_result salts now n src r reply)).
Proof.
  intros salts now n src r reply p H Hr Hok. unfold payload_ok in Hok.
  destruct Hr as [-> | ->]; cbn [handle_result]; destruct (ni_decode p) as [info|e|s]; try discriminate Hok.
  - apply anp_PI. exact H.
  - pose proof (anp_PI salts now n src info H) as G. destruct (add_new_peer salts now n src info) as [n1 fx]. exact G.
Qed.

Definition INV (n : node) : Prop := RT n /\ PI n.

(* one object at src, (possibly) fresh from pc_handle on an uninitialised object, and the node that holds it in pending *)
Lemma after_uninit_handle : forall salts now n1 src pc' r reply, (0 < now)%Z ->
  RT n1 -> PIx n1 src -> aget (n_pending n1) src = Some pc' -> handle_post payload_ok pc' r ->
  match r with
  | Ok res => INV (fst (handle_result salts now n1 src res reply))
  | _ => PI n1
  end.
Proof.
  intros salts now n1 src pc' r reply Hnow Hrt Hpx Hq Hpost.
  assert (Hfull : uninit pc' -> PI n1).
  { intros Hu a pc Ha. destruct (N.eq_dec a src) as [->|Hne]; [rewrite Hq in Ha; inversion Ha; subst; exact Hu|apply (Hpx a); assumption]. }
  destruct r as [res|e|s]; [|apply Hfull; exact Hpost|apply Hfull; exact Hpost].
  split.
  - apply hr_RT; [exact Hnow|exact Hrt|]. intros ty body ->. destruct Hpost.
  - destruct res as [ty body|p|p| |]; cbn [handle_post] in Hpost.
    + destruct Hpost.
    + eapply hr_PI_init; [exact Hpx|left; reflexivity|exact Hpost].
    + eapply hr_PI_init; [exact Hpx|right; reflexivity|exact Hpost].
    + apply hr_PI, Hfull, Hpost.
    + apply hr_PI, Hfull, Hpost.
Qed.

Lemma inv_with_invalid : forall n, INV n -> INV (with_invalid n).
Proof. intros n H. exact H. Qed.

Theorem handle_net_inv : forall salts now n src w, (0 < now)%Z -> INV n -> INV (fst (handle_net salts now n src w)).
Proof.
  intros salts now n src w Hnow [Hrt Hpi]. unfold handle_net.
  destruct (if is_init_wire w || negb (ahas (n_peers n) src) then aget (n_pending n) src else None) as [pc|] eqn:Esel.
  - (* the pending object takes it *)
    assert (Hq : aget (n_pending n) src = Some pc) by (destruct (is_init_wire w || negb (ahas (n_peers n) src)); [exact Esel|discriminate]).
    pose proof (uninit_handle payload_ok pc w (Hpi _ _ Hq)) as Hpost.
    destruct (pc_handle payload_ok pc w) as [[pc' r] reply]. cbn [fst snd] in Hpost.
    set (n1 := upd n (n_peers n) (aset (n_pending n) src pc') (n_own n) (n_table n)).
    assert (Hrt1 : RT n1) by exact Hrt.
    assert (Hpx1 : PIx n1 src).
    { intros a p Hne Ha. unfold n1 in Ha. cbn [upd n_pending] in Ha. rewrite aget_aset_other in Ha by congruence. apply (Hpi a). exact Ha. }
    assert (Hq1 : aget (n_pending n1) src = Some pc') by (unfold n1; cbn [upd n_pending]; apply aget_aset_same).
    pose proof (after_uninit_handle salts now n1 src pc' r reply Hnow Hrt1 Hpx1 Hq1 Hpost) as Hafter.
    destruct r as [res|c|s].
    + exact Hafter.
    + destruct (c =? 2); cbn [fst].
      * split; [exact Hrt|]. eapply pi_adel; [|exact Hpx1]. reflexivity.
      * split; [exact Hrt|exact Hafter].
    + cbn [fst]. split; [exact Hrt|exact Hafter].
  - destruct (is_init_wire w) eqn:Einit.
    + destruct (match aget (n_peers n) src with Some pd => if pc_has_init (p_crypto pd) then Some pd else None | None => None end) as [pd|] eqn:Epd.
      * (* an established peer's own handshake object *)
        destruct (pc_handle payload_ok (p_crypto pd) w) as [[pc' r] reply].
        set (pd' := {| p_addrs := p_addrs pd; p_timeout := p_timeout pd; p_peer_timeout := p_peer_timeout pd; p_node := p_node pd; p_crypto := pc' |}).
        set (n1 := upd n (aset (n_peers n) src pd') (n_pending n) (n_own n) (n_table n)).
        assert (Hrt1 : RT n1) by (intros x Hx; unfold n1; cbn [upd n_peers]; apply ahas_aset_keep, Hrt; exact Hx).
        assert (Hpi1 : PI n1) by exact Hpi.
        destruct r as [res|c|s]; cbn [fst].
        -- split; [apply hr_RT; [exact Hnow|exact Hrt1|]|apply hr_PI; exact Hpi1].
           intros ty body _. unfold n1. cbn [upd n_peers]. rewrite ahas_aset, N.eqb_refl. reflexivity.
        -- split; assumption.
        -- split; assumption.
      * (* a new object for an unknown source *)
        pose proof (new_instance_uninit n (salt_for salts (c_num (n_cfg n)) src)) as Hu.
        pose proof (new_instance_state n (salt_for salts (c_num (n_cfg n)) src)) as (Hp0 & Ht0 & Hq0).
        destruct (new_instance n (salt_for salts (c_num (n_cfg n)) src)) as [n0 pc]. cbn [fst snd] in *.
        pose proof (uninit_handle payload_ok pc w Hu) as Hpost.
        destruct (pc_handle payload_ok pc w) as [[pc' r] reply]. cbn [fst snd] in Hpost.
        assert (Hrt0 : RT n0) by (unfold RT; rewrite Hp0, Ht0; exact Hrt).
        assert (Hpi0 : PI n0) by (unfold PI; rewrite Hq0; exact Hpi).
        destruct r as [res|c|s]; cbn [fst]; [|split; assumption|split; assumption].
        set (n1 := upd n0 (n_peers n0) (aset (n_pending n0) src pc') (n_own n0) (n_table n0)).
        assert (Hpx1 : PIx n1 src).
        { intros a p Hne Ha. unfold n1 in Ha. cbn [upd n_pending] in Ha. rewrite aget_aset_other in Ha by congruence. apply (Hpi0 a). exact Ha. }
        assert (Hq1 : aget (n_pending n1) src = Some pc') by (unfold n1; cbn [upd n_pending]; apply aget_aset_same).
        exact (after_uninit_handle salts now n1 src pc' (Ok res) reply Hnow Hrt0 Hpx1 Hq1 Hpost).
    + destruct (aget (n_peers n) src) as [pd|] eqn:Epd; [|split; assumption].
      destruct (pc_handle payload_ok (p_crypto pd) w) as [[pc' r] reply].
      set (pd' := {| p_addrs := p_addrs pd; p_timeout := p_timeout pd; p_peer_timeout := p_peer_timeout pd; p_node := p_node pd; p_crypto := pc' |}).
      set (n1 := upd n (aset (n_peers n) src pd') (n_pending n) (n_own n) (n_table n)).
      assert (Hrt1 : RT n1) by (intros x Hx; unfold n1; cbn [upd n_peers]; apply ahas_aset_keep, Hrt; exact Hx).
      assert (Hpi1 : PI n1) by exact Hpi.
      destruct r as [res|c|s]; cbn [fst].
      * split; [apply hr_RT; [exact Hnow|exact Hrt1|]|apply hr_PI; exact Hpi1].
        intros ty body _. unfold n1. cbn [upd n_peers]. rewrite ahas_aset, N.eqb_refl. reflexivity.
      * split; assumption.
      * split; assumption.
Qed.

Lemma send_data_grows : forall n addr ty body, grows n (fst (send_data n addr ty body)).
Proof.
  intros n addr ty body. split; [|split].
  - intros x H. rewrite send_data_peers_keys. exact H.
  - unfold send_data. destruct (aget (n_peers n) addr) as [pd|]; [|intros; assumption].
    destruct (pc_send (p_crypto pd) ty body) as [pc' [w|e|s]]; intros; assumption.
  - unfold send_data. destruct (aget (n_peers n) addr) as [pd|]; [|intros; assumption].
    destruct (pc_send (p_crypto pd) ty body) as [pc' [w|e|s]]; intros; assumption.
Qed.

Lemma broadcast_grows : forall n ty body, grows n (fst (broadcast n ty body)).
Proof.
  intros n ty body. unfold broadcast. apply (fold_grows _ _ (n_peers n) (n, [])). intros [m fx] e. cbn [fst].
  pose proof (send_data_grows m (fst e) ty body) as G. destruct (send_data m (fst e) ty body) as [m' fx']. exact G.
Qed.

Theorem handle_iface_inv : forall salts now n frame, INV n -> INV (fst (handle_iface salts now n frame)).
Proof.
  intros salts now n frame [Hrt Hpi]. unfold handle_iface.
  destruct (parse_frame (n_cfg n) frame) as [[s dst]|e|s]; [|split; assumption|split; assumption].
  pose proof (hops_lk (n_table n) now dst) as Hl.
  destruct (table_lookup (n_table n) now dst) as [r t']. cbn [snd] in Hl.
  set (n1 := upd n (n_peers n) (n_pending n) (n_own n) t').
  assert (Hrt1 : RT n1) by (intros x Hx; apply Hrt, Hl; exact Hx).
  assert (Hpi1 : PI n1) by exact Hpi.
  destruct r as [addr|].
  - pose proof (send_data_grows n1 addr MESSAGE_TYPE_DATA frame) as G. split; [eapply rt_grows|eapply pi_grows]; eassumption.
  - destruct (c_broadcast (n_cfg n)).
    + pose proof (broadcast_grows n1 MESSAGE_TYPE_DATA frame) as G. split; [eapply rt_grows|eapply pi_grows]; eassumption.
    + split; assumption.
Qed.

(* removal of a peer with its routes, then a fresh dial: the shape shared by time-out and failed-handshake removal *)
Lemma drop_and_redial_inv : forall salts now m addr, (0 < now)%Z -> INV m ->
  INV (fst (connect_sock salts (upd m (adel (n_peers m) addr) (n_pending m) (n_own m) (table_remove_claims (n_table m) now addr)) addr)).
Proof.
  intros salts now m addr Hnow [Hrt Hpi].
  set (m1 := upd m _ _ _ _).
  assert (H1 : INV m1).
  { split; [|exact Hpi]. intros x Hx. unfold m1 in *. cbn [upd n_peers n_table] in *. apply hops_rc in Hx; [|exact Hnow].
    destruct Hx as [Hx Hne]. rewrite ahas_adel_other by exact Hne. apply Hrt. exact Hx. }
  destruct H1 as [A B]. pose proof (connect_sock_grows salts m1 addr) as G. split; [eapply rt_grows|eapply pi_grows]; eassumption.
Qed.

Lemma tick_pending_inv : forall n, INV n -> INV (fst (fst (tick_pending n))).
Proof.
  intros n. unfold tick_pending.
  assert (G : forall l st, INV (fst (fst st)) -> INV (fst (fst (fold_left (fun (acc : node * list effect * list N) (e : N * peer_crypto) =>
    let '(m, fx, del) := acc in
    let addr := fst e in
    match aget (n_pending m) addr with
    | None => (m, fx, del)
    | Some pc =>
        let '(pc', r, w) := pc_every_second pc in
        let m' := upd m (n_peers m) (aset (n_pending m) addr pc') (n_own m) (n_table m) in
        match r with
        | Err _ => (m', fx, del ++ [addr])
        | Ok MReply => (m', fx ++ match w with Some x => [XSend addr x] | None => [] end, del)
        | _ => (m', fx, del)
        end
    end) l st)))).
  { induction l as [|e t IH]; intros [[m fx] del] H; [exact H|]. cbn [fold_left]. apply IH. cbn [fst] in H.
    destruct (aget (n_pending m) (fst e)) as [pc|] eqn:Ea; [|exact H].
    destruct H as [Hrt Hpi]. pose proof (uninit_tick pc (Hpi _ _ Ea)) as Hu.
    destruct (pc_every_second pc) as [[pc' r] w]. cbn [fst] in Hu.
    assert (Hm : INV (upd m (n_peers m) (aset (n_pending m) (fst e) pc') (n_own m) (n_table m))).
    { split; [exact Hrt|]. eapply pi_aset; [reflexivity|exact Hu|apply pi_pix; exact Hpi]. }
    destruct r as [[ | | | | ]|c|s]; exact Hm. }
  intros H. apply (G (n_pending n) (n, [], [])). exact H.
Qed.

Lemma tick_peers_inv : forall n, INV n -> INV (fst (fst (tick_peers n))).
Proof.
  intros n. unfold tick_peers.
  assert (G : forall l st, INV (fst (fst st)) -> INV (fst (fst (fold_left (fun (acc : node * list effect * list N) (e : N * peer_data) =>
    let '(m, fx, del) := acc in
    let addr := fst e in
    match aget (n_peers m) addr with
    | None => (m, fx, del)
    | Some pd =>
        let '(pc', r, w) := pc_every_second (p_crypto pd) in
        let pd' := {| p_addrs := p_addrs pd; p_timeout := p_timeout pd; p_peer_timeout := p_peer_timeout pd; p_node := p_node pd; p_crypto := pc' |} in
        let m' := upd m (aset (n_peers m) addr pd') (n_pending m) (n_own m) (n_table m) in
        match r with
        | Err _ => (m', fx, del ++ [addr])
        | Ok MReply => (m', fx ++ match w with Some x => [XSend addr x] | None => [] end, del)
        | _ => (m', fx, del)
        end
    end) l st)))).
  { induction l as [|e t IH]; intros [[m fx] del] H; [exact H|]. cbn [fold_left]. apply IH. cbn [fst] in H.
    destruct (aget (n_peers m) (fst e)) as [pd|] eqn:Ea; [|exact H].
    destruct H as [Hrt Hpi].
    destruct (pc_every_second (p_crypto pd)) as [[pc' r] w].
    match goal with |- INV (fst (fst (match r with Ok _ => _ | Err _ => (?m', _, _) | Panic _ => _ end))) => assert (Hm : INV m') end.
    { split; [|exact Hpi]. intros x Hx. cbn [upd n_peers]. apply ahas_aset_keep, Hrt. exact Hx. }
    destruct r as [[ | | | | ]|c|s]; exact Hm. }
  intros H. apply (G (n_peers n) (n, [], [])). exact H.
Qed.

Lemma crypto_housekeep_inv : forall salts now n, (0 < now)%Z -> INV n -> INV (fst (crypto_housekeep salts now n)).
Proof.
  intros salts now n Hnow H. unfold crypto_housekeep.
  pose proof (tick_pending_inv n H) as H1. destruct (tick_pending n) as [[n1 fx1] del1]. cbn [fst] in H1.
  pose proof (tick_peers_inv n1 H1) as H2. destruct (tick_peers n1) as [[n2 fx2] del2]. cbn [fst] in H2.
  assert (H3 : forall l m, INV m -> INV (fold_left (fun m addr => upd m (n_peers m) (adel (n_pending m) addr) (n_own m) (n_table m)) l m)).
  { induction l as [|a t IH]; intros m Hm; [exact Hm|]. cbn [fold_left]. apply IH. destruct Hm as [A B]. split; [exact A|].
    eapply pi_adel; [reflexivity|apply pi_pix; exact B]. }
  specialize (H3 del1 n2 H2).
  set (n3 := fold_left _ del1 n2) in *.
  assert (H4 : forall l st, INV (fst st) -> INV (fst (fold_left (fun (acc : node * list effect) (addr : N) =>
    let '(m, fx) := acc in
    if ahas (n_peers m) addr then
      let m2 := upd m (adel (n_peers m) addr) (n_pending m) (n_own m) (table_remove_claims (n_table m) now addr) in
      let '(m3, fx') := connect_sock salts m2 addr in (m3, fx ++ fx')
    else (m, fx)) l st))).
  { induction l as [|a t IH]; intros [m fx] Hm; [exact Hm|]. cbn [fold_left]. apply IH. cbn [fst] in Hm.
    destruct (ahas (n_peers m) a); [|exact Hm].
    pose proof (drop_and_redial_inv salts now m a Hnow Hm) as G. destruct (connect_sock salts _ a) as [m3 fx']. exact G. }
  apply (H4 del2 (n3, fx1 ++ fx2)). exact H3.
Qed.

Lemma reconnect_step_inv : forall salts now n, INV n -> INV (fst (reconnect_step salts now n)).
Proof.
  intros salts now n [Hrt Hpi]. unfold reconnect_step.
  assert (G : grows n (fst (fold_left (fun (acc : node * list effect) (e : reconnect) =>
      let '(m, fx) := acc in
      if (now <? rc_next e)%Z then (m, fx) else let '(m', fx') := connect salts m (rc_addrs e) in (m', fx ++ fx'))
      (n_reconnect n) (n, [])))).
  { apply (fold_grows _ _ (n_reconnect n) (n, [])). intros [m fx] e. cbn [fst].
    destruct (now <? rc_next e)%Z; [apply grows_refl|].
    pose proof (connect_grows salts m (rc_addrs e)) as C. destruct (connect salts m (rc_addrs e)) as [m' fx']. exact C. }
  destruct (fold_left _ (n_reconnect n) (n, [])) as [n1 fx]. cbn [fst] in *.
  split; [exact (rt_grows _ _ G Hrt)|exact (pi_grows _ _ G Hpi)].
Qed.

Theorem housekeep_inv : forall salts now n, (0 < now)%Z -> INV n -> INV (fst (housekeep salts now n)).
Proof.
  intros salts now n Hnow H. unfold housekeep.
  assert (H1 : forall l st, INV (fst st) -> INV (fst (fold_left (fun (acc : node * list effect) (addr : N) =>
      let '(m, fx) := acc in
      let m1 := upd m (adel (n_peers m) addr) (n_pending m) (n_own m) (table_remove_claims (n_table m) now addr) in
      let '(m2, fx') := connect_sock salts m1 addr in (m2, fx ++ fx')) l st))).
  { induction l as [|a t IH]; intros [m fx] Hm; [exact Hm|]. cbn [fold_left]. apply IH. cbn [fst] in Hm.
    pose proof (drop_and_redial_inv salts now m a Hnow Hm) as G. destruct (connect_sock salts _ a) as [m2 fx']. exact G. }
  specialize (H1 (map fst (filter (fun e => (p_timeout (snd e) <? now)%Z) (n_peers n))) (n, []) H).
  destruct (fold_left _ _ (n, [])) as [n1 fx1]. cbn [fst] in H1.
  set (n2 := upd n1 (n_peers n1) (n_pending n1) (n_own n1) (table_housekeep (n_table n1) now)).
  assert (H2 : INV n2).
  { destruct H1 as [A B]. split; [|exact B]. intros x Hx. unfold n2 in Hx. cbn [upd n_table] in Hx. apply hops_hk in Hx. apply A. exact Hx. }
  pose proof (crypto_housekeep_inv salts now n2 Hnow H2) as H3. destruct (crypto_housekeep salts now n2) as [n3 fx3]. cbn [fst] in H3.
  assert (H4 : INV (fst (if (n_next_peers n3 <=? now)%Z then
      let '(m, fx) := broadcast n3 MESSAGE_TYPE_NODE_INFO (ni_encode (create_node_info n3)) in
      let iv := announce_interval (update_freq (c_peer_timeout (n_cfg m)) (c_keepalive (n_cfg m)))
                                  (map (fun e => p_peer_timeout (snd e)) (n_peers m)) in
      (with_sched m (now + Z.of_N iv)%Z (n_next_own_reset m) (n_reconnect m), fx)
    else (n3, [])))).
  { destruct (n_next_peers n3 <=? now)%Z; [|exact H3].
    pose proof (broadcast_grows n3 MESSAGE_TYPE_NODE_INFO (ni_encode (create_node_info n3))) as G.
    destruct (broadcast n3 _ _) as [m fx]. cbn [fst] in *. destruct H3 as [A B].
    split; [exact (rt_grows _ _ G A)|exact (pi_grows _ _ G B)]. }
  destruct (if (n_next_peers n3 <=? now)%Z then _ else _) as [n4 fx4]. cbn [fst] in H4.
  pose proof (reconnect_step_inv salts now n4 H4) as H5. destruct (reconnect_step salts now n4) as [n5 fx5]. cbn [fst] in *.
  destruct (negb (c_hkfault (n_cfg n5)) && (n_next_own_reset n5 <=? now)%Z); exact H5.
Qed.

Theorem step_inv : forall salts now n e, (0 < now)%Z -> INV n -> INV (fst (step salts now n e)).
Proof.
  intros salts now n e Hnow H. destruct e as [src w|f| |a|addrs]; cbn [step].
  - apply handle_net_inv; assumption.
  - apply handle_iface_inv; assumption.
  - apply housekeep_inv; assumption.
  - destruct H as [A B]. pose proof (connect_grows salts n [a]) as G. split; [exact (rt_grows _ _ G A)|exact (pi_grows _ _ G B)].
  - exact H.
Qed.

Lemma node_new_inv : forall c now, INV (node_new c now).
Proof. intros c now. split; [intros x [H|H]; destruct H|intros a pc H; discriminate H]. Qed.

(* every state a node can reach: any events, at any (positive, not necessarily monotone) times, with any oracle salts *)
Fixpoint nrun (salts : list (N * N)) (n : node) (evs : list (Z * event)) : node :=
  match evs with
  | [] => n
  | (now, e) :: t => nrun salts (fst (step salts now n e)) t
  end.

Theorem reachable_inv : forall salts c t0 evs, Forall (fun te => (0 < fst te)%Z) evs -> INV (nrun salts (node_new c t0) evs).
Proof.
  intros salts c t0 evs. generalize (node_new_inv c t0). generalize (node_new c t0).
  induction evs as [|[now e] t IH]; intros n Hn Hall; [exact Hn|]. cbn [nrun]. inversion Hall; subst. apply IH; [|assumption].
  apply step_inv; assumption.
Qed.

(* C12, last sentence: whatever next hop a lookup selects in a reachable state is a current peer *)
Theorem next_hop_is_peer : forall salts c t0 evs now dst p, Forall (fun te => (0 < fst te)%Z) evs ->
  fst (table_lookup (n_table (nrun salts (node_new c t0) evs)) now dst) = Some p ->
  ahas (n_peers (nrun salts (node_new c t0) evs)) p = true.
Proof.
  intros salts c t0 evs now dst p Hall Hl. destruct (reachable_inv salts c t0 evs Hall) as [Hrt _].
  destruct (lk_peers (n_table (nrun salts (node_new c t0) evs)) now dst) as (_ & _ & Hp).
  apply Hrt. destruct (Hp p Hl) as [H|H]; [right|left]; exact H.
Qed.

(* ... hence the interface path never takes the "not a peer" branch of send_data *)
Theorem iface_never_selects_non_peer : forall salts c t0 evs now frame s dst p t', Forall (fun te => (0 < fst te)%Z) evs ->
  let n := nrun salts (node_new c t0) evs in
  parse_frame (n_cfg n) frame = Ok (s, dst) -> table_lookup (n_table n) now dst = (Some p, t') ->
  exists pd, aget (n_peers n) p = Some pd.
Proof.
  intros salts c t0 evs now frame s dst p t' Hall n _ Hl.
  pose proof (next_hop_is_peer salts c t0 evs now dst p Hall) as H. fold n in H. rewrite Hl in H. specialize (H eq_refl).
  unfold ahas in H. destruct (aget (n_peers n) p) as [pd|]; [exists pd; reflexivity|discriminate].
Qed.

(* non-vacuity: a reachable state (node B after A's ping and peng) whose table does select a next hop *)
Definition cA : ncfg := {| c_num := 1; c_addr := 1001; c_peer_timeout := 300; c_keepalive := None; c_switch_timeout := 300;
  c_learning := false; c_broadcast := false; c_tap := false; c_claims := [([10;0;1;0], 24)]; c_key := 7; c_trusted := [7];
  c_algos := {| a_list := [(1, 1)]; a_plain := false |}; c_advertise := []; c_hkfault := false |}.
Definition cB : ncfg := {| c_num := 2; c_addr := 1002; c_peer_timeout := 300; c_keepalive := None; c_switch_timeout := 300;
  c_learning := false; c_broadcast := false; c_tap := false; c_claims := [([10;0;2;0], 24)]; c_key := 7; c_trusted := [7];
  c_algos := {| a_list := [(1, 1)]; a_plain := false |}; c_advertise := []; c_hkfault := false |}.
Definition first_send (fx : list effect) : wire := match fx with XSend _ w :: _ => w | _ => WEmpty end.
Definition salts : list (N * N) := [(salt_key 1 1002, 11); (salt_key 2 1001, 22)].
Definition ex_evs : list (Z * event) :=
  let '(a1, f1) := step salts 1 (node_new cA 1) (EConnect 1002) in
  let '(b1, f2) := step salts 1 (node_new cB 1) (ENet 1001 (first_send f1)) in
  let '(a2, f3) := step salts 1 a1 (ENet 1002 (first_send f2)) in
  [(1%Z, ENet 1001 (first_send f1)); (1%Z, ENet 1001 (first_send f3))].
Definition ex_b := nrun salts (node_new cB 1) ex_evs.

Lemma ex_reachable_selects : Forall (fun te => (0 < fst te)%Z) ex_evs /\
  fst (table_lookup (n_table (nrun salts (node_new cB 1) ex_evs)) 2 [10;0;1;9]) = Some 1001 /\
  ahas (n_peers (nrun salts (node_new cB 1) ex_evs)) 1001 = true.
Proof. split; [|split]; [|vm_compute; reflexivity|vm_compute; reflexivity]. vm_compute. repeat constructor. Qed.

(* the same, spelled out on the table's entries *)
Theorem reachable_routes_point_at_peers : forall salts c t0 evs, Forall (fun te => (0 < fst te)%Z) evs ->
  let n := nrun salts (node_new c t0) evs in
  (forall cl, In cl (claims (n_table n)) -> ahas (n_peers n) (c_peer cl) = true) /\
  (forall e, In e (cache (n_table n)) -> ahas (n_peers n) (e_peer e) = true) /\
  (forall a pc, aget (n_pending n) a = Some pc -> pc_plain pc = false /\ pc_core pc = None).
Proof.
  intros salts c t0 evs Hall n. destruct (reachable_inv salts c t0 evs Hall) as [Hrt Hpi]. fold n in Hrt, Hpi. split; [|split].
  - intros cl H. apply Hrt. left. unfold cpeers. apply in_map. exact H.
  - intros e H. apply Hrt. right. unfold epeers. apply in_map. exact H.
  - exact Hpi.
Qed.

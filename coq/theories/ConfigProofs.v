(* C20: configuration sources combine as documented. *)
From VpnModel Require Import Base ConfigMerge.

(* command line if given, else file, else default *)
Definition pick {A} (a f : option A) (d : A) : A :=
  match a with Some v => v | None => match f with Some v => v | None => d end end.
Definition picko {A} (a f : option A) : option A := match a with Some v => Some v | None => f end.

(* the last plain --hook, the last --hook for an event, the (unique) file entry for an event *)
Fixpoint last_plain (l : list hook_arg) : option N :=
  match l with
  | [] => None
  | x :: t => match last_plain t with
              | Some s => Some s
              | None => match x with HPlain s => Some s | HEvent _ _ => None end
              end
  end.
Fixpoint last_event (k : N) (l : list hook_arg) : option N :=
  match l with
  | [] => None
  | x :: t => match last_event k t with
              | Some s => Some s
              | None => match x with HEvent e s => if k =? e then Some s else None | HPlain _ => None end
              end
  end.
Fixpoint last_kv (k : N) (l : list (N * N)) : option N :=
  match l with
  | [] => None
  | (k', v) :: t => match last_kv k t with Some s => Some s | None => if k =? k' then Some v else None end
  end.

Lemma args_hook_spec : forall l cur, args_hook cur l = picko (last_plain l) cur.
Proof.
  unfold args_hook. induction l as [|x t IH]; intro cur; [reflexivity|]. cbn [fold_left last_plain]. rewrite IH.
  destruct (last_plain t); [reflexivity|]. destruct x; reflexivity.
Qed.

Lemma hget_hinsert : forall m k v k', hget (hinsert m k v) k' = if k' =? k then Some v else hget m k'.
Proof.
  induction m as [|[k0 v0] t IH]; intros k v k'; cbn [hinsert hget].
  - destruct (k' =? k); reflexivity.
  - destruct (k =? k0) eqn:E; cbn [hget].
    + apply N.eqb_eq in E. subst k0. destruct (k' =? k); reflexivity.
    + rewrite IH. destruct (k' =? k0) eqn:E2; [|reflexivity].
      apply N.eqb_eq in E2. subst k0. assert ((k' =? k) = false) as -> by (apply N.eqb_neq; apply N.eqb_neq in E; congruence). reflexivity.
Qed.

Lemma args_hooks_spec : forall l m k, hget (args_hooks m l) k = picko (last_event k l) (hget m k).
Proof.
  unfold args_hooks. induction l as [|x t IH]; intros m k; [reflexivity|]. cbn [fold_left last_event]. rewrite IH.
  destruct (last_event k t); [reflexivity|]. destruct x as [s|e s]; [reflexivity|]. rewrite hget_hinsert. destruct (k =? e); reflexivity.
Qed.

Lemma file_hooks_spec : forall l m k, hget (fold_left (fun m kv => hinsert m (fst kv) (snd kv)) l m) k = picko (last_kv k l) (hget m k).
Proof.
  induction l as [|[k0 v0] t IH]; intros m k; [reflexivity|]. cbn [fold_left last_kv fst snd]. rewrite IH.
  destruct (last_kv k t); [reflexivity|]. rewrite hget_hinsert. destruct (k =? k0); reflexivity.
Qed.

(* ---- precedence: every scalar setting ---- *)
Definition spec_scalars (f : config_file) (a : args) (c : config) : Prop :=
  device_type c = pick (a_type a) (sub (cf_dev f) cfd_type) 0 /\
  device_name c = pick (a_device a) (sub (cf_dev f) cfd_name) DEFAULT_DEVICE_NAME /\
  device_path c = picko (a_device_path a) (sub (cf_dev f) cfd_path) /\
  ip c = picko (a_ip a) (cf_ip f) /\
  ifup c = picko (a_ifup a) (cf_ifup f) /\
  ifdown c = picko (a_ifdown a) (cf_ifdown f) /\
  listen c = pick (a_listen a) (cf_listen f) DEFAULT_LISTEN /\
  peer_timeout c = pick (a_peer_timeout a) (cf_peer_timeout f) 300 /\
  keepalive c = picko (a_keepalive a) (cf_keepalive f) /\
  beacon_store c = picko (a_beacon_store a) (sub (cf_beacon_ f) cfb_store) /\
  beacon_load c = picko (a_beacon_load a) (sub (cf_beacon_ f) cfb_load) /\
  beacon_interval c = pick (a_beacon_interval a) (sub (cf_beacon_ f) cfb_interval) 3600 /\
  beacon_password c = picko (a_beacon_password a) (sub (cf_beacon_ f) cfb_password) /\
  mode c = pick (a_mode a) (cf_mode f) 0 /\
  switch_timeout c = pick (a_switch_timeout a) (cf_switch_timeout f) 300 /\
  pid_file c = picko (a_pid_file a) (cf_pid_file f) /\
  stats_file c = picko (a_stats_file a) (cf_stats_file f) /\
  statsd_server c = picko (a_statsd_server a) (sub (cf_statsd_ f) cfs_server) /\
  statsd_prefix c = picko (a_statsd_prefix a) (sub (cf_statsd_ f) cfs_prefix) /\
  user c = picko (a_user a) (cf_user f) /\
  group c = picko (a_group a) (cf_group f) /\
  cc_password (crypto c) = picko (a_password a) (cc_password (cf_crypto f)) /\
  cc_private (crypto c) = picko (a_private_key a) (cc_private (cf_crypto f)) /\
  cc_public (crypto c) = picko (a_public_key a) (cc_public (cf_crypto f)) /\
  hook c = picko (last_plain (a_hook a)) (cf_hook f).

Ltac field :=
  cbn; repeat match goal with |- context [match ?x with _ => _ end] => destruct x end; reflexivity.

Theorem precedence_scalars : forall f a, spec_scalars f a (effective f a).
Proof.
  intros f a. unfold spec_scalars, effective.
  do 24 (split; [solve [unfold merge_args, merge_file, default_config, default_crypto, pick, picko, ov, ovo, sub; field]|]).
  unfold merge_args. cbn [hook]. rewrite args_hook_spec. unfold merge_file, default_config. cbn [hook]. unfold ovo. destruct (cf_hook f); reflexivity.
Qed.

(* switches: the command line can only switch on --fix-rp-filter and --daemon and switch off
   auto-claim and port forwarding; otherwise the file value, else the default *)
Theorem precedence_switches : forall f a,
  let c := effective f a in
  fix_rp_filter c = (a_fix_rp_filter a || pick None (sub (cf_dev f) cfd_fix) false) /\
  auto_claim c = (negb (a_no_auto_claim a) && pick None (cf_auto_claim f) true) /\
  port_forwarding c = (negb (a_no_port_forwarding a) && pick None (cf_port_forwarding f) true) /\
  daemonize c = a_daemon a.
Proof.
  intros f a. unfold effective, merge_args, merge_file, default_config, pick, ov, sub. cbn.
  split; [|split; [|split]]; repeat match goal with |- context [match ?x with _ => _ end] => destruct x end;
    repeat match goal with |- context [if ?x then _ else _] => destruct x end; reflexivity.
Qed.

(* ---- lists accumulate: default (empty), then file, then command line ---- *)
Theorem lists_accumulate : forall f a,
  let c := effective f a in
  peers c = ov (cf_peers f) [] ++ a_peers a /\
  claims c = ov (cf_claims f) [] ++ a_claims a /\
  advertise c = ov (cf_advertise f) [] ++ a_advertise a /\
  cc_trusted (crypto c) = cc_trusted (cf_crypto f) ++ a_trusted a /\
  (forall k, hget (hooks c) k = picko (last_event k (a_hook a)) (last_kv k (cf_hooks f))).
Proof.
  intros f a. unfold effective. do 4 (split; [reflexivity|]).
  intro k. unfold merge_args. cbn [hooks]. rewrite args_hooks_spec. unfold merge_file, default_config. cbn [hooks].
  rewrite file_hooks_spec. cbn [hget]. destruct (last_kv k (cf_hooks f)); reflexivity.
Qed.

(* the cipher list is not accumulated: a non-empty list replaces (command line over file) *)
Theorem algorithms_replace : forall f a,
  cc_algos (crypto (effective f a)) =
  match a_algos a with [] => (match cc_algos (cf_crypto f) with [] => [] | l => l end) | l => l end.
Proof. intros f a. reflexivity. Qed.

(* ---- round trip through the file form ---- *)
Lemma hinsert_new : forall m k v, ~ In k (map fst m) -> hinsert m k v = m ++ [(k, v)].
Proof.
  induction m as [|[k0 v0] t IH]; intros k v Hn; [reflexivity|]. cbn [hinsert app].
  cbn [map fst In] in Hn. assert ((k =? k0) = false) as -> by (apply N.eqb_neq; intro; apply Hn; left; congruence).
  f_equal. apply IH. intro H. apply Hn. right. exact H.
Qed.

Lemma fold_hinsert_nodup : forall l m, NoDup (map fst (m ++ l)) ->
  fold_left (fun m kv => hinsert m (fst kv) (snd kv)) l m = m ++ l.
Proof.
  induction l as [|[k v] t IH]; intros m Hn; [rewrite app_nil_r; reflexivity|]. cbn [fold_left fst snd].
  assert (Hk : ~ In k (map fst m)).
  { rewrite map_app in Hn. cbn [map fst] in Hn. apply NoDup_remove_2 in Hn. intro H. apply Hn. apply in_or_app. left. exact H. }
  rewrite hinsert_new by exact Hk. rewrite IH; [rewrite <- app_assoc; reflexivity|]. rewrite <- app_assoc. exact Hn.
Qed.

(* every setting the file format can express comes back (daemonize is command-line only);
   the hook map has unique keys, being a map *)
Lemma ovo_none : forall (A : Type) (x : option A), ovo x None = x.
Proof. intros A x. destruct x; reflexivity. Qed.
Lemma algos_id : forall l : list N, match l with [] => [] | n :: t => n :: t end = l.
Proof. intros l. destruct l; reflexivity. Qed.

Theorem file_roundtrip_id : forall c, daemonize c = false -> NoDup (map fst (hooks c)) -> file_roundtrip c = c.
Proof.
  intros c Hd Hn. destruct c as [dt dn dp fr i adv iu idn cr li pe pt ka bs bl bi bp mo st cl ac pf da pid sf ss sp us gr hk hks].
  cbn [daemonize hooks] in Hd, Hn. subst da. destruct cr as [cpw cpr cpu ctr cal].
  unfold file_roundtrip, merge_file, into_config_file, default_config, default_crypto.
  cbn -[ovo fold_left hinsert]. rewrite !ovo_none. rewrite algos_id.
  rewrite (fold_hinsert_nodup hks []) by exact Hn. reflexivity.
Qed.


(* and the round trip never invents a value: without the premise on daemonize every other field still agrees *)
Theorem file_roundtrip_daemon : forall c, daemonize (file_roundtrip c) = false.
Proof. reflexivity. Qed.

(* C05, recovery: a handshake object that answered a ping and waits for the peng gives up after MAX_FAILED_RETRIES seconds whatever
   else arrives meanwhile.  No message of another stage - in particular not the pongs of a peer that is itself waiting for OUR peng
   (both ends dialled, gave up, and got the other's last ping late) - changes the object or its give-up counter; only the awaited
   peng does.  So two responder states cannot keep each other alive: each one's (121 - retries)-th tick is the fatal "Initialization
   timeout", after which the node drops the entry and can dial again. *)
From VpnModel Require Import Base Nonce Replay Core Conn.

(* one event at the object: a housekeeping second (None) or a verified-or-not handshake message (Some m) *)
Definition ev_step (ok : bytes -> bool) (s : init_state) (e : option imsg) : init_state * bool :=
  match e with
  | None => let '(s', r) := init_every_second s in (s', match r with Err 30 => true | _ => false end)
  | Some m => (fst (fst (handle_init ok s m)), false)
  end.

Fixpoint run_evs (ok : bytes -> bool) (s : init_state) (evs : list (option imsg)) : init_state * bool :=
  match evs with
  | [] => (s, false)
  | e :: t => let '(s1, g1) := ev_step ok s e in let '(s2, g2) := run_evs ok s1 t in (s2, g1 || g2)
  end.

Definition ticks (evs : list (option imsg)) : N := N.of_nat (length (filter (fun e => match e with None => true | Some _ => false end) evs)).

Lemma other_stage_changes_nothing : forall ok s m,
  i_stage s = STAGE_PENG -> im_stage m <> STAGE_PENG -> fst (fst (handle_init ok s m)) = s.
Proof.
  intros ok s m Hs Hm. unfold handle_init.
  destruct (negb (existsb (N.eqb (im_signer m)) (i_trusted s))); [reflexivity|].
  match goal with |- context [if negb ?f then _ else _] => destruct (negb f) end; [reflexivity|].
  match goal with |- context [if ?c then (s, Err 2, None) else _] => destruct c end; [reflexivity|].
  assert (E1 : (im_stage m =? i_stage s) = false) by (rewrite Hs; apply N.eqb_neq; exact Hm).
  assert (E2 : (i_stage s =? STAGE_PONG) = false) by (rewrite Hs; reflexivity).
  cbv zeta. rewrite E1, E2. cbn [negb andb].
  destruct (i_stage s =? CLOSING); [reflexivity|]. destruct (i_last s); reflexivity.
Qed.

Lemma tick_counts : forall s, i_stage s = STAGE_PENG ->
  (i_retries s < MAX_FAILED_RETRIES -> i_stage (fst (init_every_second s)) = STAGE_PENG /\
      i_retries (fst (init_every_second s)) = i_retries s + 1 /\ (forall x, snd (init_every_second s) <> Err x)) /\
  (MAX_FAILED_RETRIES <= i_retries s -> snd (init_every_second s) = Err 30).
Proof.
  intros s Hs. unfold init_every_second. rewrite Hs.
  assert ((STAGE_PENG =? WAITING_TO_CLOSE) = false) as -> by reflexivity.
  assert ((STAGE_PENG =? CLOSING) = false) as -> by reflexivity.
  split; intros H.
  - assert ((i_retries s <? MAX_FAILED_RETRIES) = true) as -> by (apply N.ltb_lt; exact H).
    cbn [fst snd upd_init i_stage i_retries]. split; [reflexivity|]. split; [reflexivity|]. intros x Hx; discriminate Hx.
  - assert ((i_retries s <? MAX_FAILED_RETRIES) = false) as -> by (apply N.ltb_ge; exact H). reflexivity.
Qed.

Theorem waiting_responder_gives_up : forall ok evs s,
  i_stage s = STAGE_PENG -> i_retries s <= MAX_FAILED_RETRIES ->
  Forall (fun e => match e with Some m => im_stage m <> STAGE_PENG | None => True end) evs ->
  MAX_FAILED_RETRIES < i_retries s + ticks evs ->
  snd (run_evs ok s evs) = true.
Proof.
  intros ok evs. induction evs as [|e t IH]; intros s Hs Hr Hall Hn.
  - unfold ticks in Hn. cbn in Hn. exfalso. unfold MAX_FAILED_RETRIES in *. lia.
  - inversion Hall as [|? ? He Ht]; subst. cbn [run_evs]. destruct e as [m|].
    + cbn [ev_step]. rewrite (other_stage_changes_nothing ok s m Hs He).
      specialize (IH s Hs Hr Ht). destruct (run_evs ok s t) as [s2 g2]. cbn [snd orb] in *. apply IH.
      unfold ticks in *. cbn [filter] in Hn. exact Hn.
    + cbn [ev_step]. destruct (tick_counts s Hs) as [A B].
      destruct (N.lt_ge_cases (i_retries s) MAX_FAILED_RETRIES) as [Hlt|Hge].
      * destruct (A Hlt) as (A1 & A2 & A3). destruct (init_every_second s) as [s1 r] eqn:E. cbn [fst snd] in *.
        assert (Hr1 : i_retries s1 <= MAX_FAILED_RETRIES) by (rewrite A2; unfold MAX_FAILED_RETRIES in *; lia).
        specialize (IH s1 A1 Hr1 Ht). destruct (run_evs ok s1 t) as [s2 g2]. cbn [snd] in *.
        rewrite IH; [apply Bool.orb_true_r|]. rewrite A2. unfold ticks in *. cbn [filter length] in Hn. lia.
      * pose proof (B Hge) as B1. destruct (init_every_second s) as [s1 r]. cbn [snd] in B1. subst r.
        destruct (run_evs ok s1 t) as [s2 g2]. reflexivity.
Qed.

(* non-vacuity: a responder that has just sent its pong, fed 121 seconds and 500 pongs of the other end in between *)
Definition ex_pong : imsg := {| im_signer := 1; im_stage := STAGE_PONG; im_salt := 7; im_node := 9; im_ecdh := Some [1]; im_algos := Some {| a_list := []; a_plain := true |}; im_payload := Some (PPlain []) |}.
Definition ex_responder : init_state :=
  upd_init (init_new 1 5 [] 1 [1] {| a_list := []; a_plain := true |} 100 []) None STAGE_PENG 60 (Some ex_pong) None None 0 100.
Lemma ex_gives_up : i_stage ex_responder = STAGE_PENG /\ i_retries ex_responder <= MAX_FAILED_RETRIES /\
  snd (run_evs (fun _ => true) ex_responder (flat_map (fun _ => [Some ex_pong; Some ex_pong; None]) (seq 0 121))) = true.
Proof. split; [reflexivity|]. split; [vm_compute; intro H; discriminate H|vm_compute; reflexivity]. Qed.

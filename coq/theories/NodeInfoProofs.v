(* C16: NodeInfo round trip through the wire format (with the format's normalisation). *)
From VpnModel Require Import Base RangeMatch RangeMatchProofs NodeInfo CodecProofs.
From Coq Require Import ZifyBool ZifyNat ZifyN.
Ltac Zify.zify_post_hook ::= Z.div_mod_to_equations.

Definition addr_ok (a : bytes) : Prop := length a = 6%nat \/ length a = 18%nat.

Lemma take_n_app : forall n a r, length a = n -> take_n n (a ++ r) = Some (a, r).
Proof.
  intros n a r H. unfold take_n. rewrite app_length, H.
  assert (Nat.ltb (n + length r) n = false) as -> by (apply Nat.ltb_ge; lia).
  rewrite firstn_app_l by (symmetry; exact H). rewrite skipn_app_l by (symmetry; exact H). reflexivity.
Qed.

Lemma read_addrs_concat : forall size l r, Forall (fun a => length a = size) l ->
  read_addrs_n size (length l) (concat l ++ r) = Some (l, r).
Proof.
  intros size l r H. induction H as [|a t Ha Ht IH]; [reflexivity|].
  cbn [length read_addrs_n concat]. rewrite <- app_assoc. rewrite take_n_app by exact Ha. rewrite IH. reflexivity.
Qed.

Lemma small_cases : forall n, n < 8 -> n = 0 \/ n = 1 \/ n = 2 \/ n = 3 \/ n = 4 \/ n = 5 \/ n = 6 \/ n = 7.
Proof. intros n H. lia. Qed.

Lemma flag_bits : forall n6 n4 extra, n6 < 8 -> n4 < 8 -> (extra = 0 \/ extra = 128) ->
  N.land (n6 * 8 + n4 + extra) 7 = n4 /\ N.land (n6 * 8 + n4 + extra) 56 / 8 = n6 /\
  (N.land (n6 * 8 + n4 + extra) 128 =? 0) = (extra =? 0).
Proof.
  intros n6 n4 extra H6 H4 He.
  apply small_cases in H6. apply small_cases in H4.
  repeat (destruct H6 as [H6|H6]); subst n6; repeat (destruct H4 as [H4|H4]); subst n4; destruct He; subst extra; vm_compute; repeat split.
Qed.

Lemma in_firstn_ni : forall (A:Type) n (l : list A) x, In x (firstn n l) -> In x l.
Proof. intros A n. induction n as [|n IH]; intros [|h t] x H; try contradiction. cbn in H. destruct H as [H|H]; [left; exact H|right; apply IH; exact H]. Qed.

Definition v6_of (l : list bytes) := fst (split_addrs l).
Definition v4_of (l : list bytes) := snd (split_addrs l).

Lemma split_props : forall l, Forall addr_ok l ->
  (length (v6_of l) <= 7)%nat /\ (length (v4_of l) <= 7)%nat /\
  Forall (fun a => length a = 18%nat) (v6_of l) /\ Forall (fun a => length a = 6%nat) (v4_of l).
Proof.
  intros l H. unfold v6_of, v4_of, split_addrs. cbn [fst snd].
  split; [apply firstn_le_length|]. split; [apply firstn_le_length|].
  split.
  - apply Forall_forall. intros a Ha. apply in_firstn_ni in Ha. apply filter_In in Ha. destruct Ha as [Hin Hf].
    rewrite Forall_forall in H. specialize (H a Hin). unfold is_v4a in Hf. destruct H as [H|H]; [rewrite H in Hf; discriminate|exact H].
  - apply Forall_forall. intros a Ha. apply in_firstn_ni in Ha. apply filter_In in Ha. destruct Ha as [Hin Hf].
    unfold is_v4a in Hf. apply Nat.eqb_eq in Hf. exact Hf.
Qed.

Lemma lenN_small : forall (A:Type) (l : list A), (length l <= 7)%nat -> lenN l < 8.
Proof. intros. unfold lenN. lia. Qed.

(* the address list as written (flag byte aside) is read back as v6 ++ v4 *)
Lemma read_addr_list : forall l extra r, Forall addr_ok l -> (extra = 0 \/ extra = 128) ->
  read_addr_list_inner (lenN (v6_of l) * 8 + lenN (v4_of l) + extra) (concat (v6_of l) ++ concat (v4_of l) ++ r)
  = Some (norm_addrs l, r).
Proof.
  intros l extra r H He. destruct (split_props l H) as (L6 & L4 & F6 & F4).
  destruct (flag_bits (lenN (v6_of l)) (lenN (v4_of l)) extra (lenN_small _ _ L6) (lenN_small _ _ L4) He) as (B4 & B6 & _).
  unfold read_addr_list_inner. rewrite B4, B6. unfold lenN. rewrite !Nat2N.id.
  rewrite read_addrs_concat by exact F6. rewrite read_addrs_concat by exact F4.
  unfold norm_addrs. fold (v6_of l). unfold v6_of, v4_of. destruct (split_addrs l). reflexivity.
Qed.

Lemma enc_addrs_shape : forall extra l,
  enc_addrs extra l = (lenN (v6_of l) * 8 + lenN (v4_of l) + extra) :: concat (v6_of l) ++ concat (v4_of l).
Proof. intros. unfold enc_addrs, v6_of, v4_of. destruct (split_addrs l). reflexivity. Qed.

Lemma concat_len : forall size (l : list bytes), Forall (fun a => length a = size) l -> length (concat l) = (size * length l)%nat.
Proof. intros size l H. induction H as [|a t Ha Ht IH]; [cbn; lia|]. cbn [concat length]. rewrite app_length, IH, Ha. lia. Qed.

Lemma enc_addrs_len : forall extra l, Forall addr_ok l -> (length (enc_addrs extra l) <= 169)%nat.
Proof.
  intros extra l H. destruct (split_props l H) as (L6 & L4 & F6 & F4). rewrite enc_addrs_shape. cbn [length].
  rewrite app_length, (concat_len 18 _ F6), (concat_len 6 _ F4). lia.
Qed.

Definition peer_ok (p : peer_info) : Prop :=
  Forall addr_ok (pi_addrs p) /\ match pi_node p with Some id => length id = 16%nat | None => True end.
Definition norm_peer (p : peer_info) : peer_info := {| pi_node := pi_node p; pi_addrs := norm_addrs (pi_addrs p) |}.

Lemma enc_peer_shape : forall p,
  enc_peer p = (lenN (v6_of (pi_addrs p)) * 8 + lenN (v4_of (pi_addrs p)) + (match pi_node p with Some _ => 128 | None => 0 end))
               :: (match pi_node p with Some id => id | None => [] end) ++ concat (v6_of (pi_addrs p)) ++ concat (v4_of (pi_addrs p)).
Proof. intros p. unfold enc_peer. destruct (pi_node p) as [id|]; rewrite enc_addrs_shape; reflexivity. Qed.

Lemma dec_peers_ok : forall ps fuel, Forall peer_ok ps -> (length ps < fuel)%nat ->
  dec_peers fuel (length (concat (map enc_peer ps))) (concat (map enc_peer ps)) = Some (map norm_peer ps).
Proof.
  induction ps as [|p t IH]; intros fuel Hok Hf.
  - destruct fuel as [|f]; [cbn in Hf; lia|]. reflexivity.
  - destruct fuel as [|f]; [cbn in Hf; lia|]. inversion Hok as [|? ? Hp Ht]; subst.
    cbn [map concat]. set (rest := concat (map enc_peer t)). rewrite enc_peer_shape.
    destruct Hp as [Ha Hid].
    destruct (split_props _ Ha) as (L6 & L4 & F6 & F4).
    assert (Hrec : dec_peers f (length rest) rest = Some (map norm_peer t)) by (apply IH; [exact Ht|cbn in Hf; lia]).
    set (c6 := concat (v6_of (pi_addrs p))) in *. set (c4 := concat (v4_of (pi_addrs p))) in *.
    destruct (pi_node p) as [id|] eqn:En.
    + set (flags := lenN (v6_of (pi_addrs p)) * 8 + lenN (v4_of (pi_addrs p)) + 128).
      destruct (flag_bits _ _ 128 (lenN_small _ _ L6) (lenN_small _ _ L4) (or_intror eq_refl)) as (_ & _ & B128). fold flags in B128.
      assert (Hread : read_addr_list_inner flags (c6 ++ c4 ++ rest) = Some (norm_addrs (pi_addrs p), rest))
        by (apply read_addr_list; [exact Ha|right; reflexivity]).
      cbn [dec_peers app].
      assert (Hlen : (length (flags :: (id ++ c6 ++ c4) ++ rest) =? 0)%nat = false) by (apply Nat.eqb_neq; cbn [length]; lia).
      rewrite Hlen, B128. cbn [N.eqb negb].
      rewrite <- !app_assoc. rewrite take_n_app by exact Hid. rewrite Hread.
      replace (length (flags :: id ++ c6 ++ c4 ++ rest) - length rest)%nat with (length (flags :: id ++ c6 ++ c4))
        by (cbn [length]; rewrite !app_length; lia).
      replace (length (flags :: id ++ c6 ++ c4 ++ rest) - length (flags :: id ++ c6 ++ c4))%nat with (length rest)
        by (cbn [length]; rewrite !app_length; lia).
      rewrite Hrec. unfold norm_peer. rewrite En. reflexivity.
    + set (flags := lenN (v6_of (pi_addrs p)) * 8 + lenN (v4_of (pi_addrs p)) + 0).
      destruct (flag_bits _ _ 0 (lenN_small _ _ L6) (lenN_small _ _ L4) (or_introl eq_refl)) as (_ & _ & B128). fold flags in B128.
      assert (Hread : read_addr_list_inner flags (c6 ++ c4 ++ rest) = Some (norm_addrs (pi_addrs p), rest))
        by (apply read_addr_list; [exact Ha|left; reflexivity]).
      cbn [dec_peers app].
      assert (Hlen : (length (flags :: (c6 ++ c4) ++ rest) =? 0)%nat = false) by (apply Nat.eqb_neq; cbn [length]; lia).
      rewrite Hlen, B128. cbn [N.eqb negb].
      rewrite <- !app_assoc. rewrite Hread.
      replace (length (flags :: c6 ++ c4 ++ rest) - length rest)%nat with (length (flags :: c6 ++ c4))
        by (cbn [length]; rewrite !app_length; lia).
      replace (length (flags :: c6 ++ c4 ++ rest) - length (flags :: c6 ++ c4))%nat with (length rest)
        by (cbn [length]; rewrite !app_length; lia).
      rewrite Hrec. unfold norm_peer. rewrite En. reflexivity.
Qed.

Lemma dec_claims_ok : forall cs fuel, Forall (fun c => (length (fst c) <= 16)%nat) cs -> (length cs < fuel)%nat ->
  dec_claims fuel (length (concat (map range_write cs))) (concat (map range_write cs)) = Some cs.
Proof.
  induction cs as [|[b p] t IH]; intros fuel Hok Hf.
  - destruct fuel as [|f]; [cbn in Hf; lia|]. reflexivity.
  - destruct fuel as [|f]; [cbn in Hf; lia|]. inversion Hok as [|? ? Hc Ht]; subst. cbn [fst] in Hc.
    cbn [map concat]. set (rest := concat (map range_write t)).
    cbn [dec_claims].
    assert (Hlen : (length (range_write (b, p) ++ rest) =? 0)%nat = false)
      by (apply Nat.eqb_neq; unfold range_write; cbn [length app]; lia).
    rewrite Hlen. rewrite range_roundtrip by exact Hc.
    replace (length (range_write (b, p) ++ rest) - (length (range_write (b, p) ++ rest) - length rest))%nat with (length rest)
      by (rewrite app_length; lia).
    rewrite IH; [reflexivity|exact Ht|cbn in Hf; lia].
Qed.

(* ---- the part loop ---- *)
Definition acc0 : ni_acc := {| acc_peers := []; acc_claims := []; acc_timeout := None; acc_node := None; acc_addrs := [] |}.

Lemma part_header : forall tag body r, lenN body < 65536 ->
  enc_part tag body ++ r = tag :: (lenN body / 256) :: (lenN body mod 256) :: body ++ r /\
  N.to_nat ((lenN body / 256) * 256 + lenN body mod 256) = length body.
Proof.
  intros tag body r H. unfold enc_part. rewrite be_enc2 by exact H. cbn [app]. split; [reflexivity|]. unfold lenN in *. lia.
Qed.

Lemma take_n_exact : forall n a, length a = n -> take_n n a = Some (a, []).
Proof. intros n a H. rewrite <- (app_nil_r a) at 1. apply take_n_app. exact H. Qed.

Lemma dp_node : forall f acc node r, length node = 16%nat ->
  dec_parts (S f) acc (enc_part 4 node ++ r) =
  dec_parts f {| acc_peers := acc_peers acc; acc_claims := acc_claims acc; acc_timeout := acc_timeout acc; acc_node := Some node; acc_addrs := acc_addrs acc |} r.
Proof.
  intros f acc node r Hl. assert (Hb : lenN node < 65536) by (unfold lenN; lia).
  destruct (part_header 4 node r Hb) as [E L]. rewrite E. cbn [dec_parts N.eqb Pos.eqb]. rewrite L.
  rewrite firstn_app_l by reflexivity. rewrite take_n_exact by exact Hl. rewrite skipn_app_l by (symmetry; exact Hl). reflexivity.
Qed.

Lemma dp_timeout : forall f acc t r, t < 65536 ->
  dec_parts (S f) acc (enc_part 3 (be_enc 2 t) ++ r) =
  dec_parts f {| acc_peers := acc_peers acc; acc_claims := acc_claims acc; acc_timeout := Some t; acc_node := acc_node acc; acc_addrs := acc_addrs acc |} r.
Proof.
  intros f acc t r Ht. assert (Hl : length (be_enc 2 t) = 2%nat) by reflexivity.
  assert (Hb : lenN (be_enc 2 t) < 65536) by (unfold lenN; rewrite Hl; lia).
  destruct (part_header 3 (be_enc 2 t) r Hb) as [E L]. rewrite E. cbn [dec_parts N.eqb Pos.eqb]. rewrite L.
  rewrite firstn_app_l by reflexivity. rewrite take_n_exact by exact Hl. rewrite skipn_app_l by (symmetry; exact Hl).
  rewrite be_val_enc_small by (cbn; lia). reflexivity.
Qed.

Lemma dp_peers : forall f acc ps r, Forall peer_ok ps -> lenN (concat (map enc_peer ps)) < 65536 ->
  dec_parts (S f) acc (enc_part 1 (concat (map enc_peer ps)) ++ r) =
  dec_parts f {| acc_peers := map norm_peer ps; acc_claims := acc_claims acc; acc_timeout := acc_timeout acc; acc_node := acc_node acc; acc_addrs := acc_addrs acc |} r.
Proof.
  intros f acc ps r Hok Hb. set (body := concat (map enc_peer ps)) in *.
  destruct (part_header 1 body r Hb) as [E L]. rewrite E. cbn [dec_parts N.eqb Pos.eqb]. rewrite L.
  rewrite firstn_app_l by reflexivity. rewrite skipn_app_l by reflexivity.
  assert (Hn : (length ps <= length body)%nat).
  { unfold body. clear. induction ps as [|p t IH]; [cbn; lia|]. cbn [map concat length]. rewrite app_length. rewrite enc_peer_shape. cbn [length]. lia. }
  unfold body. rewrite dec_peers_ok; [reflexivity|exact Hok|fold body; lia].
Qed.

Lemma dp_claims : forall f acc cs r, Forall (fun c => (length (fst c) <= 16)%nat) cs -> lenN (concat (map range_write cs)) < 65536 ->
  dec_parts (S f) acc (enc_part 2 (concat (map range_write cs)) ++ r) =
  dec_parts f {| acc_peers := acc_peers acc; acc_claims := cs; acc_timeout := acc_timeout acc; acc_node := acc_node acc; acc_addrs := acc_addrs acc |} r.
Proof.
  intros f acc cs r Hok Hb. set (body := concat (map range_write cs)) in *.
  destruct (part_header 2 body r Hb) as [E L]. rewrite E. cbn [dec_parts N.eqb Pos.eqb]. rewrite L.
  rewrite firstn_app_l by reflexivity. rewrite skipn_app_l by reflexivity.
  assert (Hn : (length cs <= length body)%nat).
  { unfold body. clear. induction cs as [|c t IH]; [cbn; lia|]. cbn [map concat length]. rewrite app_length. unfold range_write at 1. cbn [length]. lia. }
  unfold body. rewrite dec_claims_ok; [reflexivity|exact Hok|fold body; lia].
Qed.

Lemma dp_addrs : forall f acc l r, Forall addr_ok l ->
  dec_parts (S f) acc (enc_part 5 (enc_addrs 0 l) ++ r) =
  dec_parts f {| acc_peers := acc_peers acc; acc_claims := acc_claims acc; acc_timeout := acc_timeout acc; acc_node := acc_node acc; acc_addrs := norm_addrs l |} r.
Proof.
  intros f acc l r Hok. pose proof (enc_addrs_len 0 l Hok) as Hlen.
  assert (Hb : lenN (enc_addrs 0 l) < 65536) by (unfold lenN; lia).
  destruct (part_header 5 (enc_addrs 0 l) r Hb) as [E L]. rewrite E. cbn [dec_parts N.eqb Pos.eqb]. rewrite L.
  rewrite firstn_app_l by reflexivity. rewrite enc_addrs_shape.
  pose proof (read_addr_list l 0 [] Hok (or_introl eq_refl)) as Hr. rewrite !app_nil_r in Hr. rewrite Hr.
  cbn [length]. rewrite Nat.sub_0_r.
  match goal with |- dec_parts f _ (skipn ?n ?x) = _ => replace (skipn n x) with r end; [reflexivity|].
  symmetry. apply skipn_app_l. reflexivity.
Qed.

Lemma dp_end : forall f acc r, dec_parts (S f) acc (0 :: r) = Some acc.
Proof. reflexivity. Qed.

(* what an honest encoder is given *)
Definition ni_wf (x : node_info) : Prop :=
  length (ni_node x) = 16%nat /\
  Forall peer_ok (ni_peers x) /\ lenN (concat (map enc_peer (ni_peers x))) < 65536 /\
  Forall (fun c => (length (fst c) <= 16)%nat) (ni_claims x) /\ lenN (concat (map range_write (ni_claims x))) < 65536 /\
  (match ni_timeout x with Some t => t < 65536 | None => True end) /\
  Forall addr_ok (ni_addrs x).

Lemma norm_peers_eq : forall ps, map norm_peer ps = map (fun p => {| pi_node := pi_node p; pi_addrs := norm_addrs (pi_addrs p) |}) ps.
Proof. reflexivity. Qed.

(* C16-T1: node information decodes to exactly what was encoded, up to the format's normalisation
   (at most seven addresses per family and entry, IPv6 before IPv4), whatever follows the end marker *)
Theorem nodeinfo_roundtrip : forall x tail, ni_wf x -> ni_decode (ni_encode x ++ tail) = Ok (ni_normalise x).
Proof.
  intros x tail (Hn & Hp & Hpl & Hc & Hcl & Ht & Ha). unfold ni_decode, ni_encode.
  rewrite <- !app_assoc.
  set (d := enc_part 4 (ni_node x) ++ _).
  assert (Hlen : (6 <= length d)%nat).
  { unfold d. rewrite app_length. unfold enc_part at 1. cbn [length]. rewrite app_length. lia. }
  destruct (length d) as [|[|[|[|[|[|L]]]]]] eqn:EL; try lia. clear Hlen EL. unfold d. clear d.
  rewrite dp_node by exact Hn. rewrite dp_peers by assumption. rewrite dp_claims by assumption.
  cbn [acc_peers acc_claims acc_timeout acc_node acc_addrs].
  destruct (ni_timeout x) as [t|] eqn:Et.
  - rewrite dp_timeout by exact Ht. rewrite dp_addrs by exact Ha. cbn [app]. rewrite dp_end.
    cbn [acc_node acc_peers acc_claims acc_timeout acc_addrs]. unfold ni_normalise. rewrite Et. reflexivity.
  - cbn [app]. rewrite dp_addrs by exact Ha. cbn [app]. rewrite dp_end.
    cbn [acc_node acc_peers acc_claims acc_timeout acc_addrs]. unfold ni_normalise. rewrite Et. reflexivity.
Qed.

(* non-vacuity *)
Example ni_wf_example :
  ni_wf {| ni_node := zeros 16; ni_peers := [{| pi_node := Some (zeros 16); pi_addrs := [zeros 6; zeros 18] |}; {| pi_node := None; pi_addrs := [] |}];
           ni_claims := [([10; 0; 1; 0], 24)]; ni_timeout := Some 300; ni_addrs := [zeros 6] |}.
Proof.
  unfold ni_wf, peer_ok, addr_ok. cbn [ni_node ni_peers ni_claims ni_timeout ni_addrs pi_node pi_addrs].
  repeat (first [apply Forall_nil | apply Forall_cons | split | (left; reflexivity) | (right; reflexivity) | reflexivity | exact I
                 | (vm_compute; reflexivity) | (cbn; lia)]).
Qed.

(* C16-T2: a part with an unknown tag is skipped, whatever it contains *)
Theorem nodeinfo_unknown_skipped : forall f acc tag body r, 5 < tag -> lenN body < 65536 ->
  dec_parts (S f) acc (enc_part tag body ++ r) = dec_parts f acc r.
Proof.
  intros f acc tag body r Ht Hb. destruct (part_header tag body r Hb) as [E L]. rewrite E. cbn [dec_parts]. rewrite L.
  assert ((tag =? 0) = false) as -> by lia. assert ((tag =? 1) = false) as -> by lia. assert ((tag =? 2) = false) as -> by lia.
  assert ((tag =? 3) = false) as -> by lia. assert ((tag =? 4) = false) as -> by lia. assert ((tag =? 5) = false) as -> by lia.
  assert (Nat.ltb (length (body ++ r)) (length body) = false) as -> by (apply Nat.ltb_ge; rewrite app_length; lia).
  rewrite skipn_app_l by reflexivity. reflexivity.
Qed.

(* totality: the decoder never yields the Panic result *)
Theorem nodeinfo_decode_total : forall d, is_panic (ni_decode d) = false.
Proof. intros d. unfold ni_decode. destruct (dec_parts _ _ d) as [a|]; [destruct (acc_node a)|]; reflexivity. Qed.

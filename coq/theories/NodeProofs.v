From VpnModel Require Import Base RangeMatch Dissect Table TableProofs Nonce Replay Core CoreProofs Conn PeerCrypto NodeInfo Interval Node InitProofs.
From Coq Require Import ZifyBool ZifyNat ZifyN.

(* ---------------------------------------------------------------------------------------- *)
(* association lists *)

Lemma aset_same : forall (A:Type) (l : list (N * A)) k v, aget l k = Some v -> aset l k v = l.
Proof.
  induction l as [|[k' v'] t IH]; intros k v H; simpl in *; [discriminate|].
  destruct (k =? k') eqn:E; [apply N.eqb_eq in E; subst; inversion H; reflexivity|]. rewrite IH by exact H. reflexivity.
Qed.

Lemma aget_aset_same : forall (A:Type) (l : list (N * A)) k v, aget (aset l k v) k = Some v.
Proof.
  induction l as [|[k' v'] t IH]; intros k v; simpl; [rewrite N.eqb_refl; reflexivity|].
  destruct (k =? k') eqn:E; simpl; [rewrite N.eqb_refl; reflexivity|rewrite E; apply IH].
Qed.

Lemma aget_aset_other : forall (A:Type) (l : list (N * A)) k k' v, k <> k' -> aget (aset l k v) k' = aget l k'.
Proof.
  induction l as [|[k0 v0] t IH]; intros k k' v H; simpl.
  - assert ((k' =? k) = false) as -> by lia. reflexivity.
  - destruct (k =? k0) eqn:E; simpl.
    + apply N.eqb_eq in E; subst. assert ((k' =? k0) = false) as -> by lia. reflexivity.
    + destruct (k' =? k0); [reflexivity|apply IH; exact H].
Qed.

(* record eta *)
Lemma pc_set_id : forall p, pc_set p (pc_init p) (pc_rot p) (pc_plain p) (pc_core p) (pc_counter p) (pc_fresh p) = p.
Proof. intros []; reflexivity. Qed.
Lemma upd_id : forall n, upd n (n_peers n) (n_pending n) (n_own n) (n_table n) = n.
Proof. intros []; reflexivity. Qed.

(* what an outsider can make: bytes that do not verify, or that are not a genuine seal *)
Definition unverifiable (w : wire) : Prop :=
  match w with
  | WBadInit | WEmpty => True
  | WData (DShort _) => True
  | WData (DG _ _ Junk _) => True
  | _ => False
  end.

Lemma core_decrypt_junk : forall c d,
  match d with DShort _ => True | DG _ _ Junk _ => True | _ => False end ->
  exists e, core_decrypt c d = (c, Err e).
Proof.
  intros c d H. destruct d as [keyid ctr7 x j|len].
  - destruct x as [k nn pl|]; [contradiction|]. unfold core_decrypt.
    destruct (4 <=? keyid); [eexists; reflexivity|].
    destruct (be_val (nonce_rebuild (half c) ctr7) <? minn (s_win (get_slot c keyid))); cbn [aead_open]; eexists; reflexivity.
  - eexists. reflexivity.
Qed.

(* C08 / C01: such a datagram is an ordinary error for every PeerCrypto object, leaves it untouched
   and produces no reply and no panic *)
Lemma pc_handle_unverifiable : forall ok p w, unverifiable w -> pc_plain p = false ->
  pc_handle ok p w = (p, Err 1, None).
Proof.
  intros ok p w Hw Hp. destruct w as [m| | |d|b]; simpl in Hw; try contradiction.
  - unfold pc_handle. destruct (pc_init p); reflexivity.
  - reflexivity.
  - unfold pc_handle. rewrite Hp. destruct (pc_core p) as [c|] eqn:Ec; [|reflexivity].
    destruct (core_decrypt_junk c d) as [e He]; [destruct d as [? ? [| ] ?|?]; simpl in *; tauto|].
    rewrite He.
    replace (pc_set p (pc_init p) (pc_rot p) false (Some c) (pc_counter p) (pc_fresh p)) with p; [reflexivity|].
    destruct p; simpl in *; subst; reflexivity.
Qed.

Definition same_state (n n' : node) : Prop :=
  n_peers n' = n_peers n /\ n_pending n' = n_pending n /\ n_own n' = n_own n /\ n_table n' = n_table n /\
  n_next_peers n' = n_next_peers n /\ n_next_own_reset n' = n_next_own_reset n /\ n_reconnect n' = n_reconnect n /\ n_dropped n' = n_dropped n.

(* all PeerCrypto objects of a node negotiated encryption (the property's "unless both ends enabled plain") *)
Definition all_encrypted (n : node) : Prop :=
  (forall a pc, aget (n_pending n) a = Some pc -> pc_plain pc = false) /\
  (forall a pd, aget (n_peers n) a = Some pd -> pc_plain (p_crypto pd) = false) /\
  a_plain (c_algos (n_cfg n)) = false.

Lemma new_instance_plain : forall n salt, pc_plain (snd (new_instance n salt)) = false.
Proof. intros. reflexivity. Qed.

(* C08-T1/T2, C01-T2: a datagram no outsider could make valid leaves nothing behind at the node -
   no peer, no pending handshake, no route, no reply, no interface write; only the invalid-traffic
   counter (and the count of throw-away handshake objects) moves - whatever the source address and
   whatever state the node is in towards that address *)
Theorem unverifiable_no_residue : forall salts now n src w, unverifiable w -> all_encrypted n ->
  same_state n (fst (handle_net salts now n src w)) /\ snd (handle_net salts now n src w) = [].
Proof.
  intros salts now n src w Hw (Hpend & Hpeers & Hcfg). unfold handle_net.
  destruct (if is_init_wire w || negb (ahas (n_peers n) src) then aget (n_pending n) src else None) as [pc|] eqn:Ep.
  - assert (Hget : aget (n_pending n) src = Some pc) by (destruct (is_init_wire w || negb (ahas (n_peers n) src)); [exact Ep|discriminate]).
    rewrite (pc_handle_unverifiable payload_ok pc w Hw (Hpend _ _ Hget)). cbn [N.eqb Pos.eqb].
    rewrite (aset_same _ _ _ _ Hget). rewrite upd_id. split; [|reflexivity]. repeat split; reflexivity.
  - destruct (is_init_wire w) eqn:Ei.
    + destruct (aget (n_peers n) src) as [pd|] eqn:Epd.
      * destruct (pc_has_init (p_crypto pd)) eqn:Eh.
        -- rewrite (pc_handle_unverifiable payload_ok (p_crypto pd) w Hw (Hpeers _ _ Epd)).
           assert (Hpd : {| p_addrs := p_addrs pd; p_timeout := p_timeout pd; p_peer_timeout := p_peer_timeout pd; p_node := p_node pd; p_crypto := p_crypto pd |} = pd) by (destruct pd; reflexivity).
           rewrite Hpd, (aset_same _ _ _ _ Epd), upd_id. split; [|reflexivity]. repeat split; reflexivity.
        -- destruct (new_instance n (salt_for salts (c_num (n_cfg n)) src)) as [n0 pc0] eqn:En.
           assert (Hp0 : pc_plain pc0 = false) by (pose proof (new_instance_plain n (salt_for salts (c_num (n_cfg n)) src)) as H; rewrite En in H; exact H).
           rewrite (pc_handle_unverifiable payload_ok pc0 w Hw Hp0).
           unfold new_instance in En. inversion En; subst. split; [|reflexivity]. repeat split; reflexivity.
      * destruct (new_instance n (salt_for salts (c_num (n_cfg n)) src)) as [n0 pc0] eqn:En.
        assert (Hp0 : pc_plain pc0 = false) by (pose proof (new_instance_plain n (salt_for salts (c_num (n_cfg n)) src)) as H; rewrite En in H; exact H).
        rewrite (pc_handle_unverifiable payload_ok pc0 w Hw Hp0).
        unfold new_instance in En. inversion En; subst. split; [|reflexivity]. repeat split; reflexivity.
    + destruct (aget (n_peers n) src) as [pd|] eqn:Epd.
      * rewrite (pc_handle_unverifiable payload_ok (p_crypto pd) w Hw (Hpeers _ _ Epd)).
        assert (Hpd : {| p_addrs := p_addrs pd; p_timeout := p_timeout pd; p_peer_timeout := p_peer_timeout pd; p_node := p_node pd; p_crypto := p_crypto pd |} = pd) by (destruct pd; reflexivity).
        rewrite Hpd, (aset_same _ _ _ _ Epd), upd_id. split; [|reflexivity]. repeat split; reflexivity.
      * split; [|reflexivity]. repeat split; reflexivity.
Qed.

(* sequences: same_state is transitive and all_encrypted only depends on the parts it keeps *)
Lemma same_state_encrypted : forall n n', same_state n n' -> n_cfg n' = n_cfg n -> all_encrypted n -> all_encrypted n'.
Proof.
  intros n n' (H1 & H2 & _) Hc (A & B & C). unfold all_encrypted. rewrite H1, H2, Hc. repeat split; assumption.
Qed.

Lemma handle_net_cfg_unverifiable : forall salts now n src w, unverifiable w -> all_encrypted n ->
  n_cfg (fst (handle_net salts now n src w)) = n_cfg n.
Proof.
  intros salts now n src w Hw (Hpend & Hpeers & Hcfg). unfold handle_net.
  destruct (if is_init_wire w || negb (ahas (n_peers n) src) then aget (n_pending n) src else None) as [pc|] eqn:Ep.
  - assert (Hget : aget (n_pending n) src = Some pc) by (destruct (is_init_wire w || negb (ahas (n_peers n) src)); [exact Ep|discriminate]).
    rewrite (pc_handle_unverifiable payload_ok pc w Hw (Hpend _ _ Hget)). reflexivity.
  - destruct (is_init_wire w) eqn:Ei.
    + destruct (aget (n_peers n) src) as [pd|] eqn:Epd.
      * destruct (pc_has_init (p_crypto pd)) eqn:Eh.
        -- rewrite (pc_handle_unverifiable payload_ok (p_crypto pd) w Hw (Hpeers _ _ Epd)). reflexivity.
        -- unfold new_instance. erewrite pc_handle_unverifiable; [reflexivity|exact Hw|reflexivity].
      * unfold new_instance. erewrite pc_handle_unverifiable; [reflexivity|exact Hw|reflexivity].
    + destruct (aget (n_peers n) src) as [pd|] eqn:Epd.
      * rewrite (pc_handle_unverifiable payload_ok (p_crypto pd) w Hw (Hpeers _ _ Epd)). reflexivity.
      * reflexivity.
Qed.

Fixpoint inject_all (salts : list (N * N)) (now : Z) (n : node) (l : list (N * wire)) : node * list effect :=
  match l with
  | [] => (n, [])
  | (src, w) :: t => let '(n', fx) := handle_net salts now n src w in
                     let '(n'', fx') := inject_all salts now n' t in (n'', fx ++ fx')
  end.

(* C08-T3: any sequence of such datagrams, from any addresses *)
Theorem unverifiable_sequence : forall salts now l n, Forall (fun x => unverifiable (snd x)) l -> all_encrypted n ->
  same_state n (fst (inject_all salts now n l)) /\ snd (inject_all salts now n l) = [].
Proof.
  intros salts now l. induction l as [|[src w] t IH]; intros n Hl He.
  - split; [repeat split; reflexivity|reflexivity].
  - inversion Hl as [|? ? Hw Ht]; subst. cbn [snd] in Hw. cbn [inject_all].
    destruct (unverifiable_no_residue salts now n src w Hw He) as [S1 F1].
    pose proof (handle_net_cfg_unverifiable salts now n src w Hw He) as Hc.
    destruct (handle_net salts now n src w) as [n' fx]. cbn [fst snd] in *. subst fx.
    pose proof (same_state_encrypted n n' S1 Hc He) as He'.
    destruct (IH n' Ht He') as [S2 F2]. destruct (inject_all salts now n' t) as [n'' fx']. cbn [fst snd] in *. subst fx'.
    split; [|reflexivity]. unfold same_state in *. intuition congruence.
Qed.

(* ---------------------------------------------------------------------------------------- *)
(* forwarding (C10, C11 node clause, C13) *)

Definition is_send (e : effect) : bool := match e with XSend _ _ => true | XWrite _ => false end.
Definition is_write (e : effect) : bool := negb (is_send e).

Lemma send_data_effects : forall n addr ty body,
  snd (send_data n addr ty body) = [] \/
  (exists w, snd (send_data n addr ty body) = [XSend addr w] /\ ahas (n_peers n) addr = true).
Proof.
  intros n addr ty body. unfold send_data, ahas. destruct (aget (n_peers n) addr) as [pd|]; [|left; reflexivity].
  destruct (pc_send (p_crypto pd) ty body) as [pc' [w|e|s]]; [right; exists w; split; reflexivity|left; reflexivity|left; reflexivity].
Qed.

Lemma send_data_peers_keys : forall n addr ty body a, ahas (n_peers (fst (send_data n addr ty body))) a = ahas (n_peers n) a.
Proof.
  intros n addr ty body a. unfold send_data. destruct (aget (n_peers n) addr) as [pd|] eqn:E; [|reflexivity].
  destruct (pc_send (p_crypto pd) ty body) as [pc' [w|e|s]]; try reflexivity.
  cbn [fst upd n_peers]. unfold ahas. destruct (N.eq_dec addr a) as [->|Hne].
  - rewrite aget_aset_same, E. reflexivity.
  - rewrite aget_aset_other by exact Hne. reflexivity.
Qed.

(* C10-T1 / C11-T4: what an interface read causes: nothing for a malformed frame; one datagram to the
   looked-up next hop (if it is a peer); one datagram per peer when the destination is unknown and
   the mode floods; nothing (and the dropped-payload counter +1) otherwise; never an interface write *)
Theorem iface_read_effects : forall salts now n frame,
  Forall (fun e => is_send e = true) (snd (handle_iface salts now n frame)).
Proof.
  intros salts now n frame. unfold handle_iface.
  destruct (parse_frame (n_cfg n) frame) as [[s d]|e|p]; try constructor.
  destruct (table_lookup (n_table n) now d) as [[addr|] t'].
  - destruct (send_data_effects (upd n (n_peers n) (n_pending n) (n_own n) t') addr MESSAGE_TYPE_DATA frame) as [H|(w & H & _)]; rewrite H; repeat constructor.
  - destruct (c_broadcast (n_cfg n)); [|constructor].
    unfold broadcast.
    set (m0 := upd n (n_peers n) (n_pending n) (n_own n) t').
    assert (G : forall (l : list (N * peer_data)) (acc : node * list effect), Forall (fun e => is_send e = true) (snd acc) ->
      Forall (fun e => is_send e = true)
        (snd (fold_left (fun (acc : node * list effect) (e : N * peer_data) => let '(m, fx) := acc in let '(m', fx') := send_data m (fst e) MESSAGE_TYPE_DATA frame in (m', fx ++ fx')) l acc))).
    { induction l as [|x l IH]; intros [m fx] Hacc; [exact Hacc|]. cbn [fold_left]. apply IH.
      destruct (send_data m (fst x) MESSAGE_TYPE_DATA frame) as [m' fx'] eqn:Es. cbn [snd] in *.
      apply Forall_app. split; [exact Hacc|].
      destruct (send_data_effects m (fst x) MESSAGE_TYPE_DATA frame) as [H|(w & H & _)]; rewrite Es in H; cbn [snd] in H; rewrite H; repeat constructor. }
    apply G. constructor.
Qed.

Theorem iface_unknown_router_drops : forall salts now n frame s d t',
  parse_frame (n_cfg n) frame = Ok (s, d) -> table_lookup (n_table n) now d = (None, t') -> c_broadcast (n_cfg n) = false ->
  snd (handle_iface salts now n frame) = [] /\ n_dropped (fst (handle_iface salts now n frame)) = n_dropped n + 1.
Proof.
  intros salts now n frame s d t' Hp Hl Hb. unfold handle_iface. rewrite Hp, Hl, Hb. split; reflexivity.
Qed.

(* C10-T2: a received payload is written to the interface once and causes no datagram at all *)
Theorem data_no_relay : forall salts now n src body reply,
  snd (handle_result salts now n src (MMessage MESSAGE_TYPE_DATA body) reply) = [XWrite body] \/
  snd (handle_result salts now n src (MMessage MESSAGE_TYPE_DATA body) reply) = [].
Proof.
  intros. unfold handle_result. cbn [N.eqb MESSAGE_TYPE_DATA].
  destruct (parse_frame (n_cfg n) body) as [[s d]|e|p]; [left; reflexivity|right; reflexivity|right; reflexivity].
Qed.

(* C13-T1: with learning, a data frame from peer P with source address S makes P the next hop for S
   for the switch timeout, replacing whatever was known; without learning the table is untouched *)
Theorem data_learns : forall salts now n src body reply s d,
  parse_frame (n_cfg n) body = Ok (s, d) ->
  let n' := fst (handle_result salts now n src (MMessage MESSAGE_TYPE_DATA body) reply) in
  if c_learning (n_cfg n)
  then cache_get (cache (n_table n')) s = Some {| e_addr := s; e_peer := src; e_timeout := (now + cache_timeout (n_table n))%Z |} /\
       (forall b, b <> s -> cache_get (cache (n_table n')) b = cache_get (cache (n_table n)) b) /\
       claims (n_table n') = claims (n_table n)
  else n_table n' = n_table n.
Proof.
  intros salts now n src body reply s d Hp. unfold handle_result. cbn [N.eqb MESSAGE_TYPE_DATA]. rewrite Hp.
  destruct (c_learning (n_cfg n)); cbn [fst upd n_table]; [apply learn_exact|reflexivity].
Qed.

(* ---------------------------------------------------------------------------------------- *)
(* never peer with yourself (C14) *)

Definition init_msg_ok (s : init_state) (m : imsg) : Prop :=
  existsb (N.eqb (im_signer m)) (i_trusted s) = true.

(* every handshake object of a node rejects a message carrying the node's own identity as
   "connected to self" (fatal: the object is not stored / the pending entry is deleted), whatever
   stage it is in and whatever addresses were involved *)
Theorem own_message_rejected : forall ok s m, im_node m = i_node s ->
  (snd (fst (handle_init ok s m)) = Err 1 \/ snd (fst (handle_init ok s m)) = Err 2) /\
  fst (fst (handle_init ok s m)) = s /\ snd (handle_init ok s m) = None.
Proof.
  intros ok s m Hn. unfold handle_init.
  destruct (negb (existsb (N.eqb (im_signer m)) (i_trusted s))); [split; [left; reflexivity|split; reflexivity]|].
  match goal with |- context [if negb ?f then _ else _] => destruct (negb f) end; [split; [left; reflexivity|split; reflexivity]|].
  rewrite Hn, N.eqb_refl, orb_true_r. split; [right; reflexivity|split; reflexivity].
Qed.

(* addresses that peers list under the node's own identity are adopted as own addresses and not dialled *)
Theorem adopt_own_addresses : forall salts n p, pi_node p = Some (node_id_bytes (c_num (n_cfg n))) ->
  existsb (fun a => ahas (n_peers n) a) (map addr_of_bytes (pi_addrs p)) = false ->
  let r := connect_to_peers salts n [p] in
  snd r = [] /\ n_peers (fst r) = n_peers n /\ n_pending (fst r) = n_pending n /\
  (forall a, In a (map addr_of_bytes (pi_addrs p)) -> memN a (n_own (fst r)) = true).
Proof.
  intros salts n p Hid Hnp. unfold connect_to_peers. cbn [fold_left]. rewrite Hnp, Hid, list_eqb_refl.
  cbn [fst snd upd n_peers n_pending n_own]. repeat split.
  set (addrs := map addr_of_bytes (pi_addrs p)).
  assert (G : forall l own a, (memN a own = true \/ In a l) ->
      memN a (fold_left (fun own a => if memN a own then own else own ++ [a]) l own) = true).
  { induction l as [|x l IH]; intros own a [H|H]; cbn [fold_left]; try exact H; try (destruct H; fail).
    - apply IH. left. destruct (memN x own); [exact H|]. unfold memN in *. rewrite existsb_app, H. reflexivity.
    - destruct H as [->|H].
      + apply IH. left. destruct (memN a own) eqn:E; [exact E|]. unfold memN. rewrite existsb_app. cbn. rewrite N.eqb_refl. apply orb_true_r.
      + apply IH. right. exact H. }
  intros a Ha. apply G. right. exact Ha.
Qed.

(* ---------------------------------------------------------------------------------------- *)
(* established connections and replayed handshake messages (C09, after the fix of F8) *)

(* a fresh handshake object never completes on its first message: it answers a ping, everything else is an error *)
Lemma fresh_object_first_message : forall node salt payload key trusted al fresh rnd m,
  let pc := pc_new node salt payload key trusted al fresh rnd in
  match snd (fst (pc_handle payload_ok pc (WInit m))) with
  | Ok MReply => True
  | Err _ => True
  | Panic _ => True
  | _ => False
  end.
Proof.
  intros. unfold pc, pc_new, pc_handle, pc_handle_init. cbn [pc_init].
  destruct (handle_init payload_ok (init_new node salt payload key trusted al fresh rnd) m) as [[i' r] reply] eqn:E.
  destruct r as [[|p ini]|e|s]; try exact I. exfalso.
  (* a success needs the incoming stage to equal the object's stage PING, but a ping never succeeds *)
  revert E. unfold handle_init, init_new. cbn [i_trusted i_salt i_node i_stage i_last].
  hi_cases; cbn [fst snd]; intros H; try discriminate H;
    repeat match goal with
           | H : (_ && _) = true |- _ => apply andb_true_iff in H; destruct H
           | H : negb _ = false |- _ => apply negb_false_iff in H
           | H : (_ =? _) = true |- _ => apply N.eqb_eq in H
           end;
    unfold STAGE_PING, STAGE_PONG, STAGE_PENG in *; cbn [upd_init i_stage i_ecdh] in *; try congruence; try lia.
Qed.

(* C09: a handshake message replayed from the address of an established peer (no handshake object left
   for that address) creates at most a pending entry; the peer entry, the routes and the own addresses
   are untouched, and nothing is written to the interface *)
Theorem replayed_init_keeps_peer : forall salts now n src m pd,
  aget (n_peers n) src = Some pd -> pc_has_init (p_crypto pd) = false -> aget (n_pending n) src = None ->
  let r := handle_net salts now n src (WInit m) in
  n_peers (fst r) = n_peers n /\ n_table (fst r) = n_table n /\ n_own (fst r) = n_own n /\
  Forall (fun e => is_send e = true) (snd r).
Proof.
  intros salts now n src m pd Hp Hi Hpend. unfold handle_net. cbn [is_init_wire orb]. rewrite Hpend, Hp, Hi.
  unfold new_instance.
  set (pc := pc_new _ _ _ _ _ _ _ _).
  pose proof (fresh_object_first_message (c_num (n_cfg n)) (salt_for salts (c_num (n_cfg n)) src) (ni_encode (create_node_info n))
                (c_key (n_cfg n)) (eff_trusted (n_cfg n)) (c_algos (n_cfg n)) ((c_num (n_cfg n) * 2 ^ 20 + (n_objs n + 1)) * 2 ^ 40 + 1) (zeros 6) m) as F.
  fold pc in F. cbn zeta in F.
  destruct (pc_handle payload_ok pc (WInit m)) as [[pc' r] reply]. cbn [fst snd] in F.
  destruct r as [res|e|s].
  - destruct res; try contradiction. cbn [handle_result fst snd upd with_objs n_peers n_table n_own].
    repeat split. destruct reply; repeat constructor.
  - cbn [fst snd with_invalid with_objs n_peers n_table n_own]. repeat split. constructor.
  - cbn [fst snd with_objs n_peers n_table n_own]. repeat split. constructor.
Qed.

(* C09 / C05: a pending handshake that gives up removes only itself (fix of F8) *)
Lemma fold_adel_pending_peers : forall l n,
  n_peers (fold_left (fun m addr => upd m (n_peers m) (adel (n_pending m) addr) (n_own m) (n_table m)) l n) = n_peers n /\
  n_table (fold_left (fun m addr => upd m (n_peers m) (adel (n_pending m) addr) (n_own m) (n_table m)) l n) = n_table n.
Proof. induction l as [|a l IH]; intros n; [split; reflexivity|]. cbn [fold_left]. destruct (IH (upd n (n_peers n) (adel (n_pending n) a) (n_own n) (n_table n))) as [H1 H2]. split; [rewrite H1|rewrite H2]; reflexivity. Qed.

(* ---------------------------------------------------------------------------------------- *)
(* peer timeout (C15-T2): the first phase of housekeep removes exactly the peers whose refresh is
   older than the peer timeout, with their routes, and re-dials them *)

Definition expire_phase (salts : list (N * N)) (now : Z) (n : node) : node * list effect :=
  fold_left (fun acc addr =>
      let '(m, fx) := acc in
      let m1 := upd m (adel (n_peers m) addr) (n_pending m) (n_own m) (table_remove_claims (n_table m) now addr) in
      let '(m2, fx') := connect_sock salts m1 addr in (m2, fx ++ fx'))
    (map fst (filter (fun e => (p_timeout (snd e) <? now)%Z) (n_peers n))) (n, []).

Lemma aget_adel_same : forall (A:Type) (l : list (N * A)) k, aget (adel l k) k = None.
Proof.
  induction l as [|[k' v] t IH]; intros k; [reflexivity|]. unfold adel in *. cbn [filter fst].
  destruct (k' =? k) eqn:E; cbn [negb]; [apply IH|]. cbn [aget]. assert ((k =? k') = false) as -> by lia. apply IH.
Qed.

Lemma aget_adel_other : forall (A:Type) (l : list (N * A)) k k', k <> k' -> aget (adel l k) k' = aget l k'.
Proof.
  induction l as [|[k0 v] t IH]; intros k k' H; [reflexivity|]. unfold adel in *. cbn [filter fst].
  destruct (k0 =? k) eqn:E; cbn [negb aget].
  - apply N.eqb_eq in E. subst. assert ((k' =? k) = false) as -> by lia. apply IH. exact H.
  - destruct (k' =? k0); [reflexivity|apply IH; exact H].
Qed.

Lemma connect_sock_peers : forall salts n addr, n_peers (fst (connect_sock salts n addr)) = n_peers n /\ n_table (fst (connect_sock salts n addr)) = n_table n.
Proof.
  intros. unfold connect_sock. destruct (ahas (n_peers n) addr || memN addr (n_own n) || ahas (n_pending n) addr); [split; reflexivity|].
  unfold new_instance. destruct (pc_initialize _) as [pc' [w|e|s]]; split; reflexivity.
Qed.

Theorem expired_peers_removed : forall salts now n addr pd, (0 < now)%Z ->
  aget (n_peers n) addr = Some pd -> (p_timeout pd < now)%Z ->
  aget (n_peers (fst (expire_phase salts now n))) addr = None /\
  (forall c, In c (claims (n_table (fst (expire_phase salts now n)))) -> c_peer c <> addr) /\
  (forall e, In e (cache (n_table (fst (expire_phase salts now n)))) -> e_peer e <> addr).
Proof.
  intros salts now n addr pd Hnow Hget Hto. unfold expire_phase.
  set (l := map fst (filter (fun e => (p_timeout (snd e) <? now)%Z) (n_peers n))).
  assert (Hin : In addr l).
  { unfold l. clear l. induction (n_peers n) as [|[k v] t IH]; [discriminate|]. cbn [aget] in Hget. cbn [filter snd].
    destruct (addr =? k) eqn:E.
    - apply N.eqb_eq in E. subst k. inversion Hget; subst v. assert ((p_timeout pd <? now)%Z = true) as -> by lia. left. reflexivity.
    - destruct (p_timeout v <? now)%Z; [right|]; apply IH; exact Hget. }
  (* invariant of the fold: once addr was processed it stays removed with no routes *)
  assert (G : forall l m fx,
      (In addr l \/ (aget (n_peers m) addr = None /\ (forall c, In c (claims (n_table m)) -> c_peer c <> addr) /\ (forall e, In e (cache (n_table m)) -> e_peer e <> addr))) ->
      let r := fold_left (fun acc a => let '(m, fx) := acc in
                 let m1 := upd m (adel (n_peers m) a) (n_pending m) (n_own m) (table_remove_claims (n_table m) now a) in
                 let '(m2, fx') := connect_sock salts m1 a in (m2, fx ++ fx')) l (m, fx) in
      aget (n_peers (fst r)) addr = None /\ (forall c, In c (claims (n_table (fst r))) -> c_peer c <> addr) /\ (forall e, In e (cache (n_table (fst r))) -> e_peer e <> addr)).
  { clear - Hnow. induction l as [|a l IH]; intros m fx H.
    - destruct H as [[]|H]. exact H.
    - cbn [fold_left].
      set (m1 := upd m (adel (n_peers m) a) (n_pending m) (n_own m) (table_remove_claims (n_table m) now a)).
      destruct (connect_sock_peers salts m1 a) as [C1 C2].
      destruct (connect_sock salts m1 a) as [m2 fx'] eqn:Ec. cbn [fst] in C1, C2.
      apply IH. rewrite C1, C2. unfold m1. cbn [upd n_peers n_table].
      destruct (N.eq_dec a addr) as [->|Hne].
      + right. split; [apply aget_adel_same|]. destruct (remove_claims_clean (n_table m) now addr Hnow) as (R1 & R2 & _). split; assumption.
      + destruct H as [[H|H]|(H1 & H2 & H3)]; [congruence|left; exact H|].
        right. split; [rewrite aget_adel_other by exact Hne; exact H1|].
        destruct (remove_claims_clean (n_table m) now a Hnow) as (_ & _ & R3 & R4). split.
        * intros c Hc Hcp. destruct (N.eq_dec (c_peer c) a) as [Ha|Ha]; [congruence|]. apply (R3 c Ha) in Hc. destruct Hc as [Hc _]. exact (H2 c Hc Hcp).
        * intros e He Hep. destruct (N.eq_dec (e_peer e) a) as [Ha|Ha]; [congruence|]. apply (R4 e Ha) in He. destruct He as [He _]. exact (H3 e He Hep). }
  apply G. left. exact Hin.
Qed.

Lemma housekeep_starts_with_expire : forall salts now n,
  fst (housekeep salts now n) =
  fst (let '(n1, fx1) := expire_phase salts now n in
       let n2 := upd n1 (n_peers n1) (n_pending n1) (n_own n1) (table_housekeep (n_table n1) now) in
       let '(n3, fx3) := crypto_housekeep salts now n2 in
       let '(n4, fx4) :=
         if (n_next_peers n3 <=? now)%Z then
           let '(m, fx) := broadcast n3 MESSAGE_TYPE_NODE_INFO (ni_encode (create_node_info n3)) in
           let iv := announce_interval (update_freq (c_peer_timeout (n_cfg m)) (c_keepalive (n_cfg m)))
                                       (map (fun e => p_peer_timeout (snd e)) (n_peers m)) in
           (with_sched m (now + Z.of_N iv)%Z (n_next_own_reset m) (n_reconnect m), fx)
         else (n3, []) in
       let '(n5, fx5) := reconnect_step salts now n4 in
       let n6 := if negb (c_hkfault (n_cfg n5)) && (n_next_own_reset n5 <=? now)%Z
                 then with_sched (upd n5 (n_peers n5) (n_pending n5) (c_advertise (n_cfg n5) ++ [c_addr (n_cfg n5)]) (n_table n5)) (n_next_peers n5) (now + 300)%Z (n_reconnect n5)
                 else n5 in
       (n6, fx1 ++ fx3 ++ fx4 ++ fx5)).
Proof. intros. reflexivity. Qed.

(* ---------------------------------------------------------------------------------------- *)
(* peer exchange as graph closure (C14-T4, abstract) *)

Section Closure.
  Variable V : Type.
  Definition graph := V -> V -> Prop.

  (* one peer-exchange round: whoever is connected to a neighbour of mine becomes my neighbour *)
  Definition exchange (E : graph) : graph := fun u w => E u w \/ exists v, E u v /\ E v w.

  Inductive path (E : graph) : nat -> V -> V -> Prop :=
  | path_nil : forall u, path E 0 u u
  | path_cons : forall k u v w, E u v -> path E k v w -> path E (S k) u w.

  Lemma path_mono : forall (E E' : graph) k u w, (forall a b, E a b -> E' a b) -> path E k u w -> path E' k u w.
  Proof. intros E E' k u w H P. induction P; [constructor|econstructor; [apply H; eassumption|assumption]]. Qed.

  Lemma exchange_shortens : forall E k u w, path E (S (S k)) u w -> path (exchange E) (S k) u w.
  Proof.
    intros E k u w P. inversion P as [|? ? v ? Huv P1]; subst. inversion P1 as [|? ? x ? Hvx P2]; subst.
    econstructor; [right; exists v; split; eassumption|].
    apply (path_mono E); [intros a b Hab; left; exact Hab|exact P2].
  Qed.

  Fixpoint rounds (k : nat) (E : graph) : graph := match k with O => E | S j => rounds j (exchange E) end.

  (* two nodes joined by a path of k+1 connections are directly connected after k exchange rounds:
     a connected set of n nodes is fully meshed after at most n-2 rounds *)
  Theorem exchange_closure : forall k E u w, path E (S k) u w -> path (rounds k E) 1 u w.
  Proof.
    induction k as [|k IH]; intros E u w P; [exact P|]. cbn [rounds]. apply IH. apply exchange_shortens. exact P.
  Qed.
End Closure.

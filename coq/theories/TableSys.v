(* Operation language over ClaimTable for the correspondence harness and the C11/C12/C13 theorems *)
From VpnModel Require Import Base RangeMatch Table.

Inductive top :=
| TTime (now : Z)
| TSet (peer : N) (rs : list (bytes * N))
| TRemove (peer : N)
| TLookup (a : bytes)
| TCache (a : bytes) (peer : N)
| THousekeep
| TDump.

Inductive tout :=
| TNone
| TPeer (p : option N)
| TState (claims : list claim) (cache : list centry).

Definition tstep (st : table * Z) (o : top) : (table * Z) * tout :=
  let '(t, now) := st in
  match o with
  | TTime n => ((t, n), TNone)
  | TSet p rs => ((table_set_claims t now p rs, now), TNone)
  | TRemove p => ((table_remove_claims t now p, now), TNone)
  | TLookup a => let '(r, t') := table_lookup t now a in ((t', now), TPeer r)
  | TCache a p => ((table_cache t now a p, now), TNone)
  | THousekeep => ((table_housekeep t now, now), TNone)
  | TDump => ((t, now), TState (claims t) (cache t))
  end.

Fixpoint trun (st : table * Z) (ops : list top) : (table * Z) * list tout :=
  match ops with
  | [] => (st, [])
  | o :: r => let '(st', x) := tstep st o in let '(st'', xs) := trun st' r in (st'', x :: xs)
  end.

(* C02 / C06 at node level: a node whose configuration does not allow the "plain" algorithm never negotiates an unencrypted
   connection and never puts cleartext on the wire - in every state it can reach.  Every datagram it emits is a handshake message
   whose payload (the node information) is absent or sealed, an empty datagram, or a sealed datagram. *)
From VpnModel Require Import Base RangeMatch Table Nonce Replay Core Conn PeerCrypto NodeInfo Interval Node NodeProofs TrustProofs SurviveProofs NextHopProofs.

Definition noclear (m : imsg) : Prop := match im_payload m with Some (PPlain _) => False | _ => True end.

(* handshake object of a node that does not allow plain *)
Definition IE (i : init_state) : Prop :=
  a_plain (i_algos i) = false /\
  (i_stage i = STAGE_PENG -> exists c, i_core i = Some c) /\
  (forall m, i_last i = Some m -> noclear m).

Lemma init_send_props : forall s stage pub,
  let s' := fst (init_send s stage pub) in let m := snd (init_send s stage pub) in
  i_algos s' = i_algos s /\ i_stage s' = i_stage s /\ i_last s' = Some m /\
  ((stage =? STAGE_PING) = true -> im_payload m = None /\ i_core s' = i_core s) /\
  ((stage =? STAGE_PING) = false -> forall c, i_core s = Some c -> (exists c', i_core s' = Some c') /\ exists d, im_payload m = Some (PSealed d)).
Proof.
  intros s stage pub. unfold init_send. destruct (stage =? STAGE_PING) eqn:E.
  - cbn. split; [reflexivity|]. split; [reflexivity|]. split; [reflexivity|]. split; [intros _; split; reflexivity|intros H; discriminate H].
  - unfold init_encrypt_payload. destruct (i_core s) as [c|] eqn:Ec.
    + destruct (core_encrypt c (i_payload s)) as [c' d]. cbn.
      split; [reflexivity|]. split; [reflexivity|]. split; [reflexivity|]. split; [intros H; discriminate H|].
      intros _ cc _. split; eexists; reflexivity.
    + cbn. split; [reflexivity|]. split; [reflexivity|]. split; [reflexivity|]. split; [intros H; discriminate H|].
      intros _ cc H. discriminate H.
Qed.

Lemma select_not_plain : forall own peer, a_plain own = false -> select_algorithm own peer <> Ok None.
Proof. intros own peer H. unfold select_algorithm. rewrite H. cbn [andb]. destruct (candidates _ _); discriminate. Qed.

Lemma init_decrypt_core : forall ok c p, exists c', fst (init_decrypt ok (Some c) p) = Some c'.
Proof.
  intros ok c p. unfold init_decrypt. destruct p as [d|b].
  - destruct (core_decrypt c d) as [c1 [pl|e|s]]; eexists; reflexivity.
  - destruct (core_decrypt c (dgram_of_bytes b)) as [c1 x]. eexists; reflexivity.
Qed.

Definition hi_post (s' : init_state) (r : res init_result) (rep : option imsg) : Prop :=
  IE s' /\ (forall rm, rep = Some rm -> noclear rm) /\ (forall pl ini, r = Ok (ISuccess pl ini) -> (exists c, i_core s' = Some c) /\ i_stage s' <> STAGE_PENG).

Ltac hi_triv H := split; [exact H | split; [intros rm Hrm; discriminate Hrm | intros pl ini Hr; discriminate Hr]].

Lemma handle_init_ie : forall ok s m, IE s ->
  hi_post (fst (fst (handle_init ok s m))) (snd (fst (handle_init ok s m))) (snd (handle_init ok s m)).
Proof.
  intros ok s m HIE. pose proof HIE as (Ha & Hc & Hl). unfold handle_init. cbv zeta.
  destruct (negb (existsb (N.eqb (im_signer m)) (i_trusted s))); [cbn [fst snd]; hi_triv HIE|].
  match goal with |- context [if negb ?f then _ else _] => remember f as fields_ok eqn:Ef end.
  destruct fields_ok; cbn [negb]; [|cbn [fst snd]; hi_triv HIE].
  destruct ((i_salt s =? im_salt m) && (i_node s =? im_node m) || (i_node s =? im_node m)); [cbn [fst snd]; hi_triv HIE|].
  remember (negb (im_stage m =? i_stage s)) as mismatch eqn:Emis.
  remember (mismatch && (i_stage s =? STAGE_PONG) && (im_stage m =? STAGE_PING)) as dual eqn:Edual.
  destruct (dual && negb (hash_gt (im_salt m) (im_node m) (i_salt s) (i_node s))); [cbn [fst snd]; hi_triv HIE|].
  destruct (mismatch && negb dual && (i_stage s =? CLOSING)); [cbn [fst snd]; hi_triv HIE|].
  destruct (mismatch && negb dual && match i_last s with Some _ => true | None => false end).
  { cbn [fst snd]. split; [exact HIE|split; [intros rm Hrm; apply Hl; exact Hrm|intros pl ini Hr; discriminate Hr]]. }
  destruct (mismatch && negb dual) eqn:Emd; [cbn [fst snd]; hi_triv HIE|].
  (* the state the message is processed in *)
  remember (if dual then upd_init s None STAGE_PING (i_close_time s) None (i_core s) (i_selected s) 0 (i_fresh s)
            else upd_init s (i_ecdh s) (i_stage s) (i_close_time s) (i_last s) (i_core s) (i_selected s) 0 (i_fresh s)) as s0 eqn:Es0.
  assert (A0 : i_algos s0 = i_algos s) by (subst s0; destruct dual; reflexivity).
  assert (C0 : i_core s0 = i_core s) by (subst s0; destruct dual; reflexivity).
  assert (L0 : forall x, i_last s0 = Some x -> noclear x) by (subst s0; destruct dual; cbn [upd_init i_last]; [intros x Hx; discriminate Hx|exact Hl]).
  assert (S0 : i_stage s0 = im_stage m \/ (dual = true /\ i_stage s0 = STAGE_PING /\ (im_stage m =? STAGE_PING) = true)).
  { subst s0. destruct dual.
    - right. split; [reflexivity|]. split; [reflexivity|]. symmetry in Edual. apply Bool.andb_true_iff in Edual. apply Edual.
    - left. cbn [upd_init i_stage]. destruct mismatch; [discriminate Emd|]. symmetry in Emis. apply Bool.negb_false_iff in Emis. apply N.eqb_eq in Emis. symmetry. exact Emis. }
  assert (IE0 : i_stage s0 <> STAGE_PENG -> IE s0).
  { intros Hne. split; [rewrite A0; exact Ha|]. split; [intros Hs; contradiction|exact L0]. }
  destruct (im_stage m =? STAGE_PING) eqn:Eping.
  - (* PING *)
    assert (Hst : i_stage s0 = STAGE_PING) by (destruct S0 as [H|(_ & H & _)]; [rewrite H; apply N.eqb_eq; exact Eping|exact H]).
    remember (upd_init s0 (i_ecdh s0) (i_stage s0) (i_close_time s0) (i_last s0) (i_core s0) (i_selected s0) (i_retries s0) (i_fresh s0 + 2)) as s1 eqn:Es1.
    assert (IE1 : IE s1).
    { subst s1. split; [cbn [upd_init i_algos]; rewrite A0; exact Ha|]. split; [cbn [upd_init i_stage]; rewrite Hst; intros H; discriminate H|exact L0]. }
    assert (A1 : i_algos s1 = i_algos s) by (subst s1; exact A0).
    pose proof (select_not_plain (i_algos s1) (match im_algos m with Some a => a | None => {| a_list := []; a_plain := false |} end)) as Hsel.
    rewrite A1 in Hsel. specialize (Hsel Ha). rewrite A1.
    destruct (select_algorithm (i_algos s) _) as [[[a sp]|]|e|p]; [|contradiction Hsel; reflexivity|cbn [fst snd]; hi_triv IE1|cbn [fst snd]; hi_triv IE1].
    destruct (ecdh (i_fresh s0) _) as [k|]; [|cbn [fst snd]; hi_triv IE1].
    unfold core_of_key.
    match goal with |- context [init_send ?s2 STAGE_PONG ?pub] =>
      pose proof (init_send_props s2 STAGE_PONG pub) as (P1 & P2 & P3 & _ & P5); destruct (init_send s2 STAGE_PONG pub) as [s3 reply] eqn:Esend end.
    cbn [fst snd] in *. specialize (P5 eq_refl _ eq_refl). destruct P5 as [[c3 Hc3] [d Hd]].
    split; [|split].
    + split; [cbn [upd_init i_algos]; rewrite P1; cbn [upd_init i_algos]; rewrite A1; exact Ha|].
      split; [intros _; exists c3; exact Hc3|]. cbn [upd_init i_last]. intros x Hx. rewrite P3 in Hx. inversion Hx; subst x. unfold noclear. rewrite Hd. exact I.
    + intros rm Hrm. inversion Hrm; subst rm. unfold noclear. rewrite Hd. exact I.
    + intros pl ini Hr. discriminate Hr.
  - assert (Hnd : dual = false) by (destruct S0 as [_|(_ & _ & H)]; [subst dual; apply Bool.andb_false_r|discriminate H]).
    assert (Hst : i_stage s0 = im_stage m) by (destruct S0 as [H|(H & _)]; [exact H|congruence]).
    destruct (im_stage m =? STAGE_PONG) eqn:Epong.
    + (* PONG *)
      assert (Hs2 : i_stage s0 = STAGE_PONG) by (rewrite Hst; apply N.eqb_eq; exact Epong).
      assert (IEs0 : IE s0) by (apply IE0; rewrite Hs2; discriminate).
      destruct (i_ecdh s0) as [priv|]; [|cbn [fst snd]; hi_triv IEs0].
      remember (upd_init s0 None (i_stage s0) (i_close_time s0) (i_last s0) (i_core s0) (i_selected s0) (i_retries s0) (i_fresh s0 + 1)) as s1 eqn:Es1.
      assert (IE1 : IE s1).
      { subst s1. split; [cbn [upd_init i_algos]; rewrite A0; exact Ha|]. split; [cbn [upd_init i_stage]; rewrite Hs2; intros H; discriminate H|exact L0]. }
      assert (A1 : i_algos s1 = i_algos s) by (subst s1; exact A0).
      pose proof (select_not_plain (i_algos s1) (match im_algos m with Some a => a | None => {| a_list := []; a_plain := false |} end)) as Hsel.
      rewrite A1 in Hsel. specialize (Hsel Ha). rewrite A1.
      destruct (select_algorithm (i_algos s) _) as [[[a sp]|]|e|p]; [|contradiction Hsel; reflexivity|cbn [fst snd]; hi_triv IE1|cbn [fst snd]; hi_triv IE1].
      destruct (ecdh priv _) as [k|]; [|cbn [fst snd]; hi_triv IE1].
      unfold core_of_key.
      match goal with |- context [init_decrypt ok (Some ?c) ?p] =>
        destruct (init_decrypt_core ok c p) as [c' Hc']; destruct (init_decrypt ok (Some c) p) as [co pp] end.
      cbn [fst] in Hc'. subst co.
      remember (upd_init s1 (i_ecdh s1) (i_stage s1) (i_close_time s1) (i_last s1) (Some c') (Some a) (i_retries s1) (i_fresh s1)) as s2 eqn:Es2.
      assert (IE2 : IE s2).
      { subst s2. split; [cbn [upd_init i_algos]; rewrite A1; exact Ha|]. split; [intros _; eexists; reflexivity|]. cbn [upd_init i_last]. apply IE1. }
      destruct pp as [payload|]; [|cbn [fst snd]; hi_triv IE2].
      pose proof (init_send_props s2 STAGE_PENG None) as (P1 & P2 & P3 & _ & P5). destruct (init_send s2 STAGE_PENG None) as [s3 reply] eqn:Esend.
      cbn [fst snd] in *. assert (Hc2 : i_core s2 = Some c') by (subst s2; reflexivity).
      specialize (P5 eq_refl _ Hc2). destruct P5 as [[c3 Hc3] [d Hd]].
      split; [|split].
      * split; [cbn [upd_init i_algos]; rewrite P1; subst s2; cbn [upd_init i_algos]; rewrite A1; exact Ha|].
        split; [cbn [upd_init i_stage]; intros H; discriminate H|]. cbn [upd_init i_last]. intros x Hx. rewrite P3 in Hx. inversion Hx; subst x. unfold noclear. rewrite Hd. exact I.
      * intros rm Hrm. inversion Hrm; subst rm. unfold noclear. rewrite Hd. exact I.
      * intros pl ini _. cbn [upd_init i_core i_stage]. split; [exists c3; exact Hc3|discriminate].
    + (* PENG *)
      assert (Hs3 : im_stage m = STAGE_PENG).
      { destruct (im_stage m =? STAGE_PENG) eqn:E3; [apply N.eqb_eq; exact E3|cbn in Ef; discriminate Ef]. }
      assert (Hps : i_stage s = STAGE_PENG).
      { assert (Hss : i_stage s0 = i_stage s) by (rewrite Hnd in Es0; subst s0; reflexivity). congruence. }
      destruct (Hc Hps) as [c Hcs].
      rewrite C0, Hcs.
      match goal with |- context [init_decrypt ok (Some c) ?p] =>
        destruct (init_decrypt_core ok c p) as [c' Hc']; destruct (init_decrypt ok (Some c) p) as [co pp] end.
      cbn [fst] in Hc'. subst co.
      remember (upd_init s0 (i_ecdh s0) (i_stage s0) (i_close_time s0) (i_last s0) (Some c') (i_selected s0) (i_retries s0) (i_fresh s0)) as s1 eqn:Es1.
      assert (IE1 : IE s1).
      { subst s1. split; [cbn [upd_init i_algos]; rewrite A0; exact Ha|]. split; [intros _; eexists; reflexivity|exact L0]. }
      destruct pp as [payload|]; [|cbn [fst snd]; hi_triv IE1].
      cbn [fst snd]. split; [|split].
      * split; [cbn [upd_init i_algos]; subst s1; cbn [upd_init i_algos]; rewrite A0; exact Ha|].
        split; [cbn [upd_init i_stage]; intros H; discriminate H|]. cbn [upd_init i_last]. apply IE1.
      * intros rm Hrm. discriminate Hrm.
      * intros pl ini _. cbn [upd_init i_core i_stage]. split; [subst s1; eexists; reflexivity|discriminate].
Qed.

(* ---- connection objects ---- *)
Definition PE (p : peer_crypto) : Prop := pc_plain p = false /\ (forall i, pc_init p = Some i -> IE i).
Definition nocl_wire (w : wire) : Prop := match w with WPlain _ => False | WInit m => noclear m | _ => True end.

Lemma pe_set : forall p io r c cnt fr, pc_plain p = false -> (forall i, io = Some i -> IE i) -> PE (pc_set p io r (pc_plain p) c cnt fr).
Proof. intros p io r c cnt fr Hp Hi. split; [exact Hp|exact Hi]. Qed.

Lemma pe_new : forall node salt payload key trusted al fresh rnd, a_plain al = false -> PE (pc_new node salt payload key trusted al fresh rnd).
Proof.
  intros. split; [reflexivity|]. intros i Hi. cbn [pc_new pc_init] in Hi. inversion Hi; subst i.
  split; [exact H|]. split; [intros Hs; discriminate Hs|intros m Hm; discriminate Hm].
Qed.

Lemma pe_seal : forall p ty body, PE p -> PE (fst (pc_seal p ty body)) /\ (forall w, snd (pc_seal p ty body) = Ok w -> nocl_wire w).
Proof.
  intros p ty body [Hp Hi]. unfold pc_seal. rewrite Hp. destruct (pc_core p) as [c|].
  - destruct (core_encrypt c (ty :: body)) as [c' d]. cbn [fst snd]. split; [split; [reflexivity|exact Hi]|intros w Hw; inversion Hw; exact I].
  - cbn [fst snd]. split; [split; assumption|intros w Hw; discriminate Hw].
Qed.

Lemma pe_initialize : forall p, PE p -> PE (fst (pc_initialize p)) /\ (forall w, snd (pc_initialize p) = Ok w -> nocl_wire w).
Proof.
  intros p [Hp Hi]. pose proof (conj Hp Hi : PE p) as HPE. unfold pc_initialize. destruct (pc_init p) as [i|] eqn:Ei; [|cbn [fst snd]; split; [exact HPE|intros w Hw; discriminate Hw]].
  destruct (negb (i_stage i =? STAGE_PING)); [cbn [fst snd]; split; [exact HPE|intros w Hw; discriminate Hw]|].
  destruct (Hi i eq_refl) as (Ha & Hc & Hl).
  unfold init_send_ping.
  match goal with |- context [init_send ?s1 STAGE_PING ?pub] =>
    pose proof (init_send_props s1 STAGE_PING pub) as (P1 & P2 & P3 & P4 & _); destruct (init_send s1 STAGE_PING pub) as [s2 m] end.
  cbn [fst snd] in *. destruct (P4 eq_refl) as [Hpl Hco].
  split.
  - split; [exact Hp|]. intros i0 Hi0. cbn [pc_set pc_init] in Hi0. inversion Hi0; subst i0.
    split; [cbn [upd_init i_algos]; rewrite P1; exact Ha|]. split; [cbn [upd_init i_stage]; intros H; discriminate H|].
    cbn [upd_init i_last]. intros x Hx. rewrite P3 in Hx. inversion Hx; subst x. unfold noclear. rewrite Hpl. exact I.
  - intros w Hw. inversion Hw. unfold nocl_wire, noclear. rewrite Hpl. exact I.
Qed.

Lemma pe_rotate : forall p data, PE p -> PE (fst (pc_handle_rotate p data)).
Proof.
  intros p data [Hp Hi]. pose proof (conj Hp Hi : PE p) as HPE. unfold pc_handle_rotate. rewrite Hp.
  destruct (pc_rot p) as [rs|]; [|exact HPE].
  destruct (rot_handle rs data (pc_fresh p)) as [[[rs' rk]|e|s] fr]; cbn [fst].
  - destruct rk as [k|]; [destruct (pc_core p) as [c|]|]; cbn [fst]; (split; [reflexivity|exact Hi]).
  - split; [reflexivity|exact Hi].
  - exact HPE.
Qed.

Lemma ie_taken : forall i, IE i -> i_stage i <> STAGE_PENG ->
  IE (upd_init i (i_ecdh i) (i_stage i) (i_close_time i) (i_last i) None (i_selected i) (i_retries i) (i_fresh i)).
Proof. intros i (Ha & Hc & Hl) Hs. split; [exact Ha|]. split; [intros H; contradiction|exact Hl]. Qed.

Lemma pe_handle : forall ok p w, PE p ->
  PE (fst (fst (pc_handle ok p w))) /\ (forall x, snd (pc_handle ok p w) = Some x -> nocl_wire x).
Proof.
  intros ok p w [Hp Hi]. pose proof (conj Hp Hi : PE p) as HPE. destruct w as [m| | |d|b]; cbn [pc_handle].
  - unfold pc_handle_init. destruct (pc_init p) as [i|] eqn:Ei; [|cbn [fst snd]; split; [exact HPE|intros x Hx; discriminate Hx]].
    pose proof (handle_init_ie ok i m (Hi i eq_refl)) as (IE' & Hrep & Hsucc).
    destruct (handle_init ok i m) as [[i' r0] reply]. cbn [fst snd] in *.
    assert (P1 : PE (pc_set p (Some i') (pc_rot p) (pc_plain p) (pc_core p) (pc_counter p) (pc_fresh p))).
    { apply pe_set; [exact Hp|]. intros i0 Hi0. inversion Hi0; subst i0. exact IE'. }
    destruct r0 as [[|payload ini]|e|s]; cbn [fst snd]; try (split; [exact P1|intros x Hx; discriminate Hx]).
    + split; [exact P1|]. intros x Hx. inversion Hx; subst x. destruct reply as [rm|]; [apply Hrep; reflexivity|exact I].
    + destruct (Hsucc payload ini eq_refl) as [[c0 Hc0] Hst]. rewrite Hc0.
      assert (IO : forall i0, (if i_stage (upd_init i' (i_ecdh i') (i_stage i') (i_close_time i') (i_last i') None (i_selected i') (i_retries i') (i_fresh i')) =? CLOSING then None
                               else Some (upd_init i' (i_ecdh i') (i_stage i') (i_close_time i') (i_last i') None (i_selected i') (i_retries i') (i_fresh i'))) = Some i0 -> IE i0).
      { intros i0 H0. destruct (_ =? CLOSING); [discriminate H0|]. inversion H0; subst i0. apply ie_taken; assumption. }
      destruct ini.
      * destruct (rot_new false (pc_fresh p)) as [[rs rm] fr]. cbn [fst snd]. split.
        -- split; [cbn; exact Hp|]. intros i0 H0. cbn [with_alg pc_set pc_init] in H0. apply IO. exact H0.
        -- intros x Hx. destruct reply as [rm'|]; [|discriminate Hx]. cbn [option_map] in Hx. inversion Hx; subst x. apply Hrep. reflexivity.
      * destruct (rot_new true (pc_fresh p)) as [[rs rm] fr]. destruct rm as [m1|].
        -- destruct (core_encrypt c0 _) as [c1 dd]. cbn [fst snd]. split.
           ++ split; [cbn; exact Hp|]. intros i0 H0. cbn [with_alg pc_set pc_init] in H0. apply IO. exact H0.
           ++ intros x Hx. inversion Hx. exact I.
        -- cbn [fst snd]. split; [exact P1|intros x Hx; discriminate Hx].
  - destruct (pc_init p); cbn [fst snd]; (split; [exact HPE|intros x Hx; discriminate Hx]).
  - cbn [fst snd]. split; [exact HPE|intros x Hx; discriminate Hx].
  - rewrite Hp. destruct (pc_core p) as [c|]; [|cbn [fst snd]; split; [exact HPE|intros x Hx; discriminate Hx]].
    destruct (core_decrypt c d) as [c' [plain|e|s]].
    + assert (P1 : PE (pc_set p (pc_init p) (pc_rot p) false (Some c') (pc_counter p) (pc_fresh p))) by (split; [reflexivity|exact Hi]).
      destruct plain as [|ty body]; [cbn [fst snd]; split; [exact P1|intros x Hx; discriminate Hx]|].
      destruct (ty =? MESSAGE_TYPE_ROTATION).
      * pose proof (pe_rotate _ body P1) as P2. destruct (pc_handle_rotate _ body) as [p2 [u|e|s]]; cbn [fst snd] in *; (split; [exact P2|intros x Hx; discriminate Hx]).
      * cbn [fst snd]. split; [exact P1|intros x Hx; discriminate Hx].
    + cbn [fst snd]. split; [split; [reflexivity|exact Hi]|intros x Hx; discriminate Hx].
    + cbn [fst snd]. split; [exact HPE|intros x Hx; discriminate Hx].
  - rewrite Hp. destruct (pc_core p) as [c|]; [|cbn [fst snd]; split; [exact HPE|intros x Hx; discriminate Hx]].
    destruct (core_decrypt c (dgram_of_bytes b)) as [c' x0]. cbn [fst snd]. split; [split; [reflexivity|exact Hi]|intros x Hx; discriminate Hx].
Qed.

Lemma ie_every_second : forall i, IE i ->
  IE (fst (init_every_second i)) /\ (forall m, snd (init_every_second i) = Ok (Some m) -> noclear m).
Proof.
  intros i (Ha & Hc & Hl). unfold init_every_second.
  destruct (i_stage i =? WAITING_TO_CLOSE) eqn:E4.
  - apply N.eqb_eq in E4. destruct (i_close_time i =? 0); cbn [fst snd]; (split; [|intros m Hm; discriminate Hm]).
    + split; [exact Ha|]. split; [intros H; discriminate H|exact Hl].
    + split; [exact Ha|]. split; [cbn [upd_init i_stage]; rewrite E4; intros H; discriminate H|exact Hl].
  - destruct (i_stage i =? CLOSING); [cbn [fst snd]; split; [split; [exact Ha|split; assumption]|intros m Hm; discriminate Hm]|].
    destruct (i_retries i <? MAX_FAILED_RETRIES); cbn [fst snd].
    + split; [split; [exact Ha|split; [exact Hc|exact Hl]]|]. intros m Hm. inversion Hm as [Hm']. apply Hl. exact Hm'.
    + split; [split; [exact Ha|split; [intros H; discriminate H|exact Hl]]|intros m Hm; discriminate Hm].
Qed.

Lemma pe_tick : forall p, PE p ->
  PE (fst (fst (pc_every_second p))) /\ (forall x, snd (pc_every_second p) = Some x -> nocl_wire x).
Proof.
  intros p [Hp Hi]. pose proof (conj Hp Hi : PE p) as HPE. unfold pc_every_second.
  assert (Hio : forall io ir, (match pc_init p with Some i => let '(i', r) := init_every_second i in (Some i', r) | None => (None, Ok None) end) = (io, ir) ->
                (forall i, io = Some i -> IE i) /\ (forall m, ir = Ok (Some m) -> noclear m)).
  { intros io ir H. destruct (pc_init p) as [i|] eqn:Ei.
    - pose proof (ie_every_second i (Hi i eq_refl)) as [A B]. destruct (init_every_second i) as [i' r]. inversion H; subst io ir. cbn [fst snd] in *.
      split; [intros i0 H0; inversion H0; subst i0; exact A|exact B].
    - inversion H; subst io ir. split; [intros i0 H0; discriminate H0|intros m Hm; discriminate Hm]. }
  destruct (match pc_init p with Some i => let '(i', r) := init_every_second i in (Some i', r) | None => (None, Ok None) end) as [io ir].
  destruct (Hio io ir eq_refl) as [Hio1 Hio2]. clear Hio.
  assert (Hio' : forall i, match io with Some i => if i_stage i =? CLOSING then None else Some i | None => None end = Some i -> IE i).
  { intros i H. destruct io as [i0|]; [|discriminate H]. destruct (i_stage i0 =? CLOSING); [discriminate H|]. inversion H; subst i. apply Hio1. reflexivity. }
  destruct ir as [out|e|s]; cbn [fst snd]; [|split; [split; [exact Hp|exact Hio1]|intros x Hx; discriminate Hx]|split; [exact HPE|intros x Hx; discriminate Hx]].
  destruct out as [m|]; cbn [fst snd].
  { split; [split; [exact Hp|exact Hio']|]. intros x Hx. inversion Hx; subst x. apply Hio2. reflexivity. }
  destruct (pc_rot p) as [rs|]; cbn [fst snd]; [|split; [split; [exact Hp|exact Hio']|intros x Hx; discriminate Hx]].
  destruct (pc_counter p + 1 <? ROTATE_INTERVAL); cbn [fst snd]; [split; [split; [exact Hp|exact Hio']|intros x Hx; discriminate Hx]|].
  destruct (rot_cycle rs (pc_fresh p)) as [[[rs' rm] rk] fr].
  assert (G : forall c2, let p2 := pc_set p (match io with Some i => if i_stage i =? CLOSING then None else Some i | None => None end) (Some rs') (pc_plain p) c2 0 fr in
              match rm with
              | None => PE p2
              | Some m => PE (fst (pc_seal p2 MESSAGE_TYPE_ROTATION (rot_encode m))) /\ (forall w, snd (pc_seal p2 MESSAGE_TYPE_ROTATION (rot_encode m)) = Ok w -> nocl_wire w)
              end).
  { intros c2 p2. assert (P2 : PE p2) by (split; [exact Hp|exact Hio']). destruct rm as [m|]; [apply pe_seal; exact P2|exact P2]. }
  destruct rk as [k|].
  - destruct (option_map core_tick (pc_core p)) as [c1|]; cbn [fst snd].
    + specialize (G (option_map (fun c => apply_rotated c (Some k) (pc_rnd p)) (Some c1))). cbn zeta in G.
      destruct rm as [m|]; cbn [fst snd]; [|split; [exact G|intros x Hx; discriminate Hx]].
      destruct G as [G1 G2]. destruct (pc_seal _ MESSAGE_TYPE_ROTATION (rot_encode m)) as [p3 [w|e|s]]; cbn [fst snd] in *;
        (split; [exact G1|intros x Hx; try discriminate Hx]). inversion Hx; subst x. apply G2. reflexivity.
    + split; [split; [exact Hp|exact Hio']|intros x Hx; discriminate Hx].
  - assert (G' := G (option_map (fun c => apply_rotated c None (pc_rnd p)) (option_map core_tick (pc_core p)))). cbn zeta in G'.
    destruct (option_map core_tick (pc_core p)) as [c1|]; cbn [fst snd];
      (destruct rm as [m|]; cbn [fst snd]; [|split; [exact G'|intros x Hx; discriminate Hx]];
       destruct G' as [G1 G2]; destruct (pc_seal _ MESSAGE_TYPE_ROTATION (rot_encode m)) as [p3 [w|e|s]]; cbn [fst snd] in *;
       (split; [exact G1|intros x Hx; try discriminate Hx]); inversion Hx; subst x; apply G2; reflexivity).
Qed.

(* ---- nodes ---- *)
Definition NE (n : node) : Prop :=
  a_plain (c_algos (n_cfg n)) = false /\
  (forall a pc, aget (n_pending n) a = Some pc -> PE pc) /\
  (forall a pd, aget (n_peers n) a = Some pd -> PE (p_crypto pd)).
Definition nocl_eff (e : effect) : Prop := match e with XSend _ w => nocl_wire w | XWrite _ => True end.
Definition good (x : node * list effect) : Prop := NE (fst x) /\ Forall nocl_eff (snd x).

Lemma ne_pending_aset : forall n a pc, NE n -> PE pc -> NE (upd n (n_peers n) (aset (n_pending n) a pc) (n_own n) (n_table n)).
Proof.
  intros n a pc (Hc & Hq & Hp) Hpc. split; [exact Hc|]. split; [|exact Hp]. cbn [upd n_pending]. intros b pc' Hb.
  destruct (N.eq_dec a b) as [<-|Hne]; [rewrite aget_aset_same in Hb; inversion Hb; subst; exact Hpc|rewrite aget_aset_other in Hb by exact Hne; exact (Hq b pc' Hb)].
Qed.
Lemma ne_pending_adel : forall n a, NE n -> NE (upd n (n_peers n) (adel (n_pending n) a) (n_own n) (n_table n)).
Proof.
  intros n a (Hc & Hq & Hp). split; [exact Hc|]. split; [|exact Hp]. cbn [upd n_pending]. intros b pc' Hb.
  destruct (N.eq_dec b a) as [->|Hne]; [rewrite aget_adel_same in Hb; discriminate|rewrite aget_adel_other in Hb by congruence; exact (Hq b pc' Hb)].
Qed.
Lemma ne_peers_aset : forall n a pd own t, NE n -> PE (p_crypto pd) -> NE (upd n (aset (n_peers n) a pd) (n_pending n) own t).
Proof.
  intros n a pd own t (Hc & Hq & Hp) Hpd. split; [exact Hc|]. split; [exact Hq|]. cbn [upd n_peers]. intros b pd' Hb.
  destruct (N.eq_dec a b) as [<-|Hne]; [rewrite aget_aset_same in Hb; inversion Hb; subst; exact Hpd|rewrite aget_aset_other in Hb by exact Hne; exact (Hp b pd' Hb)].
Qed.
Lemma ne_peers_adel : forall n a t, NE n -> NE (upd n (adel (n_peers n) a) (n_pending n) (n_own n) t).
Proof.
  intros n a t (Hc & Hq & Hp). split; [exact Hc|]. split; [exact Hq|]. cbn [upd n_peers]. intros b pd' Hb.
  destruct (N.eq_dec b a) as [->|Hne]; [rewrite aget_adel_same in Hb; discriminate|rewrite aget_adel_other in Hb by congruence; exact (Hp b pd' Hb)].
Qed.
Lemma ne_same : forall n n', n_cfg n' = n_cfg n -> n_peers n' = n_peers n -> n_pending n' = n_pending n -> NE n -> NE n'.
Proof. intros n n' H1 H2 H3. unfold NE. rewrite H1, H2, H3. exact (fun H => H). Qed.

Lemma new_instance_ne : forall n salt, NE n -> NE (fst (new_instance n salt)) /\ PE (snd (new_instance n salt)).
Proof.
  intros n salt H. unfold new_instance. cbn [fst snd]. split; [exact H|]. apply pe_new. apply H.
Qed.

Lemma connect_sock_good : forall salts n a, NE n -> good (connect_sock salts n a).
Proof.
  intros salts n a H. unfold connect_sock. destruct (ahas (n_peers n) a || memN a (n_own n) || ahas (n_pending n) a); [split; [exact H|constructor]|].
  pose proof (new_instance_ne n (salt_for salts (c_num (n_cfg n)) a) H) as [H1 Hpc]. destruct (new_instance n _) as [n1 pc]. cbn [fst snd] in *.
  pose proof (pe_initialize pc Hpc) as [Hpc' Hw]. destruct (pc_initialize pc) as [pc' [w|e|s]]; cbn [fst snd] in *.
  - split; [apply ne_pending_aset; assumption|]. cbn [snd]. constructor; [apply Hw; reflexivity|constructor].
  - split; [exact H1|constructor].
  - split; [exact H1|constructor].
Qed.

Lemma fold_good : forall (A : Type) (f : node * list effect -> A -> node * list effect) (l : list A) st,
  (forall st x, good st -> good (f st x)) -> good st -> good (fold_left f l st).
Proof. intros A f l. induction l as [|x t IH]; intros st H Hs; [exact Hs|]. cbn [fold_left]. apply IH; [exact H|apply H; exact Hs]. Qed.

Lemma good_app : forall (m : node) fx m' fx', NE m' -> Forall nocl_eff fx -> Forall nocl_eff fx' -> good (m', fx ++ fx').
Proof. intros. split; [assumption|]. cbn [snd]. apply Forall_app. split; assumption. Qed.

Lemma connect_good : forall salts n addrs, NE n -> good (connect salts n addrs).
Proof.
  intros salts n addrs H. unfold connect. destruct (existsb _ addrs); [split; [exact H|constructor]|].
  apply (fold_good _ _ addrs (n, [])); [|split; [exact H|constructor]]. intros [m fx] a [Hm Hfx]. cbn [fst snd] in *.
  pose proof (connect_sock_good salts m a Hm) as [G1 G2]. destruct (connect_sock salts m a) as [m' fx']. apply (good_app m); assumption.
Qed.

Lemma connect_to_peers_good : forall salts ps n, NE n -> good (connect_to_peers salts n ps).
Proof.
  intros salts ps n H. unfold connect_to_peers. apply (fold_good _ _ ps (n, [])); [|split; [exact H|constructor]]. intros [m fx] p [Hm Hfx]. cbn [fst snd] in *.
  destruct (existsb _ (map addr_of_bytes (pi_addrs p))); [split; assumption|].
  pose proof (connect_good salts m (map addr_of_bytes (pi_addrs p)) Hm) as [G1 G2].
  destruct (pi_node p) as [id|].
  - destruct (list_eqb id _); [split; [|exact Hfx]; cbn [fst]; eapply ne_same; [| | |exact Hm]; reflexivity|].
    destruct (existsb _ (n_peers m)); [split; assumption|]. destruct (connect salts m _) as [m' fx']. apply (good_app m); assumption.
  - destruct (connect salts m _) as [m' fx']. apply (good_app m); assumption.
Qed.

Lemma upi_good : forall salts now n addr info, NE n -> good (update_peer_info salts now n addr info).
Proof.
  intros salts now n addr info H. unfold update_peer_info. destruct (aget (n_peers n) addr) as [pd|] eqn:Ea; [|split; [exact H|constructor]].
  assert (Hpd : PE (p_crypto pd)) by (destruct H as (_ & _ & Hp); exact (Hp _ _ Ea)).
  destruct info as [i|].
  - apply connect_to_peers_good. cbn [upd n_peers n_pending n_own n_table].
    match goal with |- NE (upd (upd n ?ps ?q ?o ?t) _ _ _ ?t') => change (upd (upd n ps q o t) ps q o t') with (upd n ps q o t') end.
    apply ne_peers_aset; [exact H|exact Hpd].
  - split; [|constructor]. cbn [fst]. apply ne_peers_aset; [exact H|exact Hpd].
Qed.

Lemma anp_good : forall salts now n addr info, NE n -> good (add_new_peer salts now n addr info).
Proof.
  intros salts now n addr info H. unfold add_new_peer. destruct (aget (n_pending n) addr) as [pc|] eqn:Ea; [|split; [exact H|constructor]].
  apply upi_good. destruct H as (Hc & Hq & Hp). split; [exact Hc|]. split.
  - cbn [upd n_pending]. intros b pc' Hb. destruct (N.eq_dec b addr) as [->|Hne]; [rewrite aget_adel_same in Hb; discriminate|rewrite aget_adel_other in Hb by congruence; exact (Hq b pc' Hb)].
  - cbn [upd n_peers]. intros b pd' Hb. destruct (N.eq_dec addr b) as [<-|Hne].
    + rewrite aget_aset_same in Hb. inversion Hb; subst pd'. cbn [p_crypto]. exact (Hq _ _ Ea).
    + rewrite aget_aset_other in Hb by exact Hne. exact (Hp b pd' Hb).
Qed.

Lemma remove_peer_ne : forall now n addr, NE n -> NE (remove_peer now n addr).
Proof. intros now n addr H. unfold remove_peer. destruct (aget (n_peers n) addr); [|exact H]. apply ne_peers_adel. exact H. Qed.

Lemma hr_good : forall salts now n src r reply, NE n -> (forall w, reply = Some w -> nocl_wire w) ->
  good (handle_result salts now n src r reply).
Proof.
  intros salts now n src r reply H Hrep.
  assert (Hr : Forall nocl_eff (match reply with Some w => [XSend src w] | None => [] end)).
  { destruct reply as [w|]; [constructor; [apply Hrep; reflexivity|constructor]|constructor]. }
  destruct r as [ty body|p|p| |]; cbn [handle_result].
  - destruct (ty =? MESSAGE_TYPE_DATA).
    + destruct (parse_frame (n_cfg n) body) as [[s d]|e|s]; try (split; [exact H|constructor]).
      split; [|constructor; [exact I|constructor]]. cbn [fst]. destruct (c_learning (n_cfg n)); [|exact H]. eapply ne_same; [| | |exact H]; reflexivity.
    + destruct (ty =? MESSAGE_TYPE_NODE_INFO).
      * destruct (ni_decode body) as [info|e|s]; [apply upi_good; exact H|split; [exact H|constructor]|split; [exact H|constructor]].
      * destruct (ty =? MESSAGE_TYPE_KEEPALIVE); [apply upi_good; exact H|].
        destruct (ty =? MESSAGE_TYPE_CLOSE); [split; [apply remove_peer_ne; exact H|constructor]|split; [exact H|constructor]].
  - destruct (ni_decode p) as [info|e|s]; [apply anp_good; exact H|split; [exact H|constructor]|split; [exact H|constructor]].
  - destruct (ni_decode p) as [info|e|s]; [|split; [exact H|constructor]|split; [exact H|constructor]].
    pose proof (anp_good salts now n src info H) as [G1 G2]. destruct (add_new_peer salts now n src info) as [n1 fx]. apply (good_app n); assumption.
  - split; [exact H|exact Hr].
  - split; [exact H|constructor].
Qed.

Lemma handle_net_good : forall salts now n src w, NE n -> good (handle_net salts now n src w).
Proof.
  intros salts now n src w H. pose proof H as (Hc & Hq & Hp). unfold handle_net.
  destruct (if is_init_wire w || negb (ahas (n_peers n) src) then aget (n_pending n) src else None) as [pc|] eqn:Esel.
  - assert (Ha : aget (n_pending n) src = Some pc) by (destruct (is_init_wire w || negb (ahas (n_peers n) src)); [exact Esel|discriminate]).
    pose proof (pe_handle payload_ok pc w (Hq _ _ Ha)) as [P1 P2]. destruct (pc_handle payload_ok pc w) as [[pc' r] reply]. cbn [fst snd] in *.
    pose proof (ne_pending_aset n src pc' H P1) as H1.
    destruct r as [res|c|s]; [apply hr_good; assumption| |split; [exact H1|constructor]].
    destruct (c =? 2); [|split; [exact H1|constructor]]. split; [|constructor]. cbn [fst]. apply (ne_pending_adel _ src) in H1. exact H1.
  - destruct (is_init_wire w).
    + destruct (match aget (n_peers n) src with Some pd => if pc_has_init (p_crypto pd) then Some pd else None | None => None end) as [pd|] eqn:Epd.
      * assert (Ea : aget (n_peers n) src = Some pd) by (destruct (aget (n_peers n) src) as [pd0|]; [destruct (pc_has_init (p_crypto pd0)); [exact Epd|discriminate]|discriminate]).
        pose proof (pe_handle payload_ok (p_crypto pd) w (Hp _ _ Ea)) as [P1 P2]. destruct (pc_handle payload_ok (p_crypto pd) w) as [[pc' r] reply]. cbn [fst snd] in *.
        match goal with |- good (match r with Ok _ => _ | Err _ => (with_invalid ?m, _) | Panic _ => _ end) => assert (H1 : NE m) by (apply ne_peers_aset; [exact H|exact P1]) end.
        destruct r as [res|c|s]; [apply hr_good; assumption|split; [exact H1|constructor]|split; [exact H1|constructor]].
      * pose proof (new_instance_ne n (salt_for salts (c_num (n_cfg n)) src) H) as [H0 Hpc]. destruct (new_instance n _) as [n0 pc]. cbn [fst snd] in *.
        pose proof (pe_handle payload_ok pc w Hpc) as [P1 P2]. destruct (pc_handle payload_ok pc w) as [[pc' r] reply]. cbn [fst snd] in *.
        destruct r as [res|c|s]; [|split; [exact H0|constructor]|split; [exact H0|constructor]].
        apply hr_good; [apply ne_pending_aset; assumption|exact P2].
    + destruct (aget (n_peers n) src) as [pd|] eqn:Ea; [|split; [exact H|constructor]].
      pose proof (pe_handle payload_ok (p_crypto pd) w (Hp _ _ Ea)) as [P1 P2]. destruct (pc_handle payload_ok (p_crypto pd) w) as [[pc' r] reply]. cbn [fst snd] in *.
      match goal with |- good (match r with Ok _ => _ | Err _ => (with_invalid ?m, _) | Panic _ => _ end) => assert (H1 : NE m) by (apply ne_peers_aset; [exact H|exact P1]) end.
      destruct r as [res|c|s]; [apply hr_good; assumption|split; [exact H1|constructor]|split; [exact H1|constructor]].
Qed.

Lemma send_data_good : forall n addr ty body, NE n -> good (send_data n addr ty body).
Proof.
  intros n addr ty body H. unfold send_data. destruct (aget (n_peers n) addr) as [pd|] eqn:Ea; [|split; [exact H|constructor]].
  unfold pc_send. pose proof (pe_seal (p_crypto pd) ty body (proj2 (proj2 H) _ _ Ea)) as [P1 P2].
  destruct (pc_seal (p_crypto pd) ty body) as [pc' [w|e|s]]; cbn [fst snd] in *; try (split; [exact H|constructor]).
  split; [apply ne_peers_aset; [exact H|exact P1]|constructor; [apply P2; reflexivity|constructor]].
Qed.

Lemma broadcast_good : forall n ty body, NE n -> good (broadcast n ty body).
Proof.
  intros n ty body H. unfold broadcast. apply (fold_good _ _ (n_peers n) (n, [])); [|split; [exact H|constructor]]. intros [m fx] e [Hm Hfx]. cbn [fst snd] in *.
  pose proof (send_data_good m (fst e) ty body Hm) as [G1 G2]. destruct (send_data m (fst e) ty body) as [m' fx']. apply (good_app m); assumption.
Qed.

Lemma handle_iface_good : forall salts now n frame, NE n -> good (handle_iface salts now n frame).
Proof.
  intros salts now n frame H. unfold handle_iface. destruct (parse_frame (n_cfg n) frame) as [[s dst]|e|s]; [|split; [exact H|constructor]|split; [exact H|constructor]].
  destruct (table_lookup (n_table n) now dst) as [r t'].
  assert (H1 : NE (upd n (n_peers n) (n_pending n) (n_own n) t')) by (eapply ne_same; [| | |exact H]; reflexivity).
  destruct r as [addr|]; [apply send_data_good; exact H1|]. destruct (c_broadcast (n_cfg n)); [apply broadcast_good; exact H1|split; [exact H1|constructor]].
Qed.

Definition good3 (st : node * list effect * list N) : Prop := NE (fst (fst st)) /\ Forall nocl_eff (snd (fst st)).

Lemma tick_pending_good : forall n, NE n -> good3 (tick_pending n).
Proof.
  intros n. unfold tick_pending.
  assert (G : forall l st, good3 st -> good3 (fold_left (fun (acc : node * list effect * list N) (e : N * peer_crypto) =>
    let '(m, fx, del) := acc in
    let addr := fst e in
    match aget (n_pending m) addr with
    | None => (m, fx, del)
    | Some pc =>
        let '(pc', r, w) := pc_every_second pc in
        let m' := upd m (n_peers m) (aset (n_pending m) addr pc') (n_own m) (n_table m) in
        match r with
        | Err _ => (m', fx, del ++ [addr])
        | Ok MReply => (m', fx ++ match w with Some x => [XSend addr x] | None => [] end, del)
        | _ => (m', fx, del)
        end
    end) l st)).
  { induction l as [|e t IH]; intros [[m fx] del] H; [exact H|]. cbn [fold_left]. apply IH. destruct H as [Hm Hfx]. cbn [fst snd] in *.
    destruct (aget (n_pending m) (fst e)) as [pc|] eqn:Ea; [|split; assumption].
    pose proof (pe_tick pc (proj1 (proj2 Hm) _ _ Ea)) as [P1 P2]. destruct (pc_every_second pc) as [[pc' r] w]. cbn [fst snd] in *.
    pose proof (ne_pending_aset m (fst e) pc' Hm P1) as H1.
    destruct r as [[ | | | | ]|c|s]; try (split; [exact H1|exact Hfx]).
    split; [exact H1|]. cbn [fst snd]. apply Forall_app. split; [exact Hfx|]. destruct w as [x|]; [constructor; [apply P2; reflexivity|constructor]|constructor]. }
  intros H. apply (G (n_pending n) (n, [], [])). split; [exact H|constructor].
Qed.

Lemma tick_peers_good : forall n, NE n -> good3 (tick_peers n).
Proof.
  intros n. unfold tick_peers.
  assert (G : forall l st, good3 st -> good3 (fold_left (fun (acc : node * list effect * list N) (e : N * peer_data) =>
    let '(m, fx, del) := acc in
    let addr := fst e in
    match aget (n_peers m) addr with
    | None => (m, fx, del)
    | Some pd =>
        let '(pc', r, w) := pc_every_second (p_crypto pd) in
        let pd' := {| p_addrs := p_addrs pd; p_timeout := p_timeout pd; p_peer_timeout := p_peer_timeout pd; p_node := p_node pd; p_crypto := pc' |} in
        let m' := upd m (aset (n_peers m) addr pd') (n_pending m) (n_own m) (n_table m) in
        match r with
        | Err _ => (m', fx, del ++ [addr])
        | Ok MReply => (m', fx ++ match w with Some x => [XSend addr x] | None => [] end, del)
        | _ => (m', fx, del)
        end
    end) l st)).
  { induction l as [|e t IH]; intros [[m fx] del] H; [exact H|]. cbn [fold_left]. apply IH. destruct H as [Hm Hfx]. cbn [fst snd] in *.
    destruct (aget (n_peers m) (fst e)) as [pd|] eqn:Ea; [|split; assumption].
    pose proof (pe_tick (p_crypto pd) (proj2 (proj2 Hm) _ _ Ea)) as [P1 P2]. destruct (pc_every_second (p_crypto pd)) as [[pc' r] w]. cbn [fst snd] in *.
    match goal with |- good3 (match r with Ok _ => _ | Err _ => (?m', _, _) | Panic _ => _ end) => assert (H1 : NE m') by (apply ne_peers_aset; [exact Hm|exact P1]) end.
    destruct r as [[ | | | | ]|c|s]; try (split; [exact H1|exact Hfx]).
    split; [exact H1|]. cbn [fst snd]. apply Forall_app. split; [exact Hfx|]. destruct w as [x|]; [constructor; [apply P2; reflexivity|constructor]|constructor]. }
  intros H. apply (G (n_peers n) (n, [], [])). split; [exact H|constructor].
Qed.

Lemma drop_and_redial_good : forall salts now m addr, NE m ->
  good (connect_sock salts (upd m (adel (n_peers m) addr) (n_pending m) (n_own m) (table_remove_claims (n_table m) now addr)) addr).
Proof. intros salts now m addr H. apply connect_sock_good. apply ne_peers_adel. exact H. Qed.

Lemma crypto_housekeep_good : forall salts now n, NE n -> good (crypto_housekeep salts now n).
Proof.
  intros salts now n H. unfold crypto_housekeep.
  pose proof (tick_pending_good n H) as [H1 F1]. destruct (tick_pending n) as [[n1 fx1] del1]. cbn [fst snd] in *.
  pose proof (tick_peers_good n1 H1) as [H2 F2]. destruct (tick_peers n1) as [[n2 fx2] del2]. cbn [fst snd] in *.
  assert (H3 : forall l m, NE m -> NE (fold_left (fun m addr => upd m (n_peers m) (adel (n_pending m) addr) (n_own m) (n_table m)) l m)).
  { induction l as [|a t IH]; intros m Hm; [exact Hm|]. cbn [fold_left]. apply IH. apply ne_pending_adel. exact Hm. }
  specialize (H3 del1 n2 H2).
  set (n3 := fold_left _ del1 n2) in *.
  assert (H4 : forall l st, good st -> good (fold_left (fun (acc : node * list effect) (addr : N) =>
    let '(m, fx) := acc in
    if ahas (n_peers m) addr then
      let m2 := upd m (adel (n_peers m) addr) (n_pending m) (n_own m) (table_remove_claims (n_table m) now addr) in
      let '(m3, fx') := connect_sock salts m2 addr in (m3, fx ++ fx')
    else (m, fx)) l st)).
  { induction l as [|a t IH]; intros [m fx] [Hm Hfx]; [split; assumption|]. cbn [fold_left]. apply IH. cbn [fst snd] in *.
    destruct (ahas (n_peers m) a); [|split; assumption].
    pose proof (drop_and_redial_good salts now m a Hm) as [G1 G2]. destruct (connect_sock salts _ a) as [m3 fx']. apply (good_app m); assumption. }
  apply (H4 del2 (n3, fx1 ++ fx2)). split; [exact H3|]. cbn [snd]. apply Forall_app. split; assumption.
Qed.

Lemma reconnect_step_good : forall salts now n, NE n -> good (reconnect_step salts now n).
Proof.
  intros salts now n H. unfold reconnect_step.
  assert (G : good (fold_left (fun (acc : node * list effect) (e : reconnect) =>
      let '(m, fx) := acc in
      if (now <? rc_next e)%Z then (m, fx) else let '(m', fx') := connect salts m (rc_addrs e) in (m', fx ++ fx'))
      (n_reconnect n) (n, []))).
  { apply (fold_good _ _ (n_reconnect n) (n, [])); [|split; [exact H|constructor]]. intros [m fx] e [Hm Hfx]. cbn [fst snd] in *.
    destruct (now <? rc_next e)%Z; [split; assumption|].
    pose proof (connect_good salts m (rc_addrs e) Hm) as [C1 C2]. destruct (connect salts m (rc_addrs e)) as [m' fx']. apply (good_app m); assumption. }
  destruct (fold_left _ (n_reconnect n) (n, [])) as [n1 fx]. destruct G as [G1 G2]. split; [|exact G2]. cbn [fst]. eapply ne_same; [| | |exact G1]; reflexivity.
Qed.

Theorem housekeep_good : forall salts now n, NE n -> good (housekeep salts now n).
Proof.
  intros salts now n H. unfold housekeep.
  assert (H1 : forall l st, good st -> good (fold_left (fun (acc : node * list effect) (addr : N) =>
      let '(m, fx) := acc in
      let m1 := upd m (adel (n_peers m) addr) (n_pending m) (n_own m) (table_remove_claims (n_table m) now addr) in
      let '(m2, fx') := connect_sock salts m1 addr in (m2, fx ++ fx')) l st)).
  { induction l as [|a t IH]; intros [m fx] [Hm Hfx]; [split; assumption|]. cbn [fold_left]. apply IH. cbn [fst snd] in *.
    pose proof (drop_and_redial_good salts now m a Hm) as [G1 G2]. destruct (connect_sock salts _ a) as [m2 fx']. apply (good_app m); assumption. }
  specialize (H1 (map fst (filter (fun e => (p_timeout (snd e) <? now)%Z) (n_peers n))) (n, []) (conj H (Forall_nil _))).
  destruct (fold_left _ _ (n, [])) as [n1 fx1]. destruct H1 as [N1 F1]. cbn [fst snd] in *.
  set (n2 := upd n1 (n_peers n1) (n_pending n1) (n_own n1) (table_housekeep (n_table n1) now)).
  assert (N2 : NE n2) by (eapply ne_same; [| | |exact N1]; reflexivity).
  pose proof (crypto_housekeep_good salts now n2 N2) as [N3 F3]. destruct (crypto_housekeep salts now n2) as [n3 fx3]. cbn [fst snd] in *.
  assert (H4 : good (if (n_next_peers n3 <=? now)%Z then
      let '(m, fx) := broadcast n3 MESSAGE_TYPE_NODE_INFO (ni_encode (create_node_info n3)) in
      let iv := announce_interval (update_freq (c_peer_timeout (n_cfg m)) (c_keepalive (n_cfg m)))
                                  (map (fun e => p_peer_timeout (snd e)) (n_peers m)) in
      (with_sched m (now + Z.of_N iv)%Z (n_next_own_reset m) (n_reconnect m), fx)
    else (n3, []))).
  { destruct (n_next_peers n3 <=? now)%Z; [|split; [exact N3|constructor]].
    pose proof (broadcast_good n3 MESSAGE_TYPE_NODE_INFO (ni_encode (create_node_info n3)) N3) as [G1 G2].
    destruct (broadcast n3 _ _) as [m fx]. split; [|exact G2]. cbn [fst]. eapply ne_same; [| | |exact G1]; reflexivity. }
  destruct (if (n_next_peers n3 <=? now)%Z then _ else _) as [n4 fx4]. destruct H4 as [N4 F4]. cbn [fst snd] in *.
  pose proof (reconnect_step_good salts now n4 N4) as [N5 F5]. destruct (reconnect_step salts now n4) as [n5 fx5]. cbn [fst snd] in *.
  split.
  - cbn [fst]. destruct (negb (c_hkfault (n_cfg n5)) && (n_next_own_reset n5 <=? now)%Z); [eapply ne_same; [| | |exact N5]; reflexivity|exact N5].
  - cbn [snd]. repeat (apply Forall_app; split); assumption.
Qed.

Theorem step_good : forall salts now n e, NE n -> good (step salts now n e).
Proof.
  intros salts now n e H. destruct e as [src w|f| |a|addrs]; cbn [step].
  - apply handle_net_good; exact H.
  - apply handle_iface_good; exact H.
  - apply housekeep_good; exact H.
  - apply connect_good; exact H.
  - split; [|constructor]. cbn [fst]. eapply ne_same; [| | |exact H]; reflexivity.
Qed.

Lemma node_new_ne : forall c now, a_plain (c_algos c) = false -> NE (node_new c now).
Proof. intros c now H. split; [exact H|]. split; intros a x Hx; discriminate Hx. Qed.

(* all the datagrams a node emits while it processes a sequence of events *)
Fixpoint nrun_fx (salts : list (N * N)) (n : node) (evs : list (Z * event)) : list effect :=
  match evs with
  | [] => []
  | (now, e) :: t => snd (step salts now n e) ++ nrun_fx salts (fst (step salts now n e)) t
  end.

Theorem reachable_ne : forall salts evs n, NE n -> NE (nrun salts n evs) /\ Forall nocl_eff (nrun_fx salts n evs).
Proof.
  intros salts evs. induction evs as [|[now e] t IH]; intros n H; [split; [exact H|constructor]|]. cbn [nrun nrun_fx].
  pose proof (step_good salts now n e H) as [G1 G2]. destruct (IH _ G1) as [I1 I2]. split; [exact I1|apply Forall_app; split; assumption].
Qed.

(* C02 / C06: spelled out *)
Theorem no_cleartext_ever : forall salts c t0 evs, a_plain (c_algos c) = false ->
  (forall dst w, In (XSend dst w) (nrun_fx salts (node_new c t0) evs) ->
     match w with
     | WPlain _ => False                                             (* never an unencrypted message *)
     | WInit m => match im_payload m with Some (PPlain _) => False | _ => True end   (* node information in a handshake message: absent or sealed *)
     | _ => True
     end) /\
  (forall a pd, aget (n_peers (nrun salts (node_new c t0) evs)) a = Some pd -> pc_plain (p_crypto pd) = false).
Proof.
  intros salts c t0 evs Hc. destruct (reachable_ne salts evs (node_new c t0) (node_new_ne c t0 Hc)) as [H1 H2]. split.
  - intros dst w Hin. rewrite Forall_forall in H2. specialize (H2 _ Hin). cbn [nocl_eff] in H2. destruct w; try exact I; exact H2.
  - intros a pd Ha. destruct H1 as (_ & _ & Hp). apply (Hp a pd Ha).
Qed.

(* non-vacuity: the example node of NextHopProofs (plain not allowed) emits a handshake message with a sealed payload *)
Lemma ex_sealed_payload : a_plain (c_algos cB) = false /\
  existsb (fun e => match e with XSend _ (WInit m) => match im_payload m with Some (PSealed _) => true | _ => false end | _ => false end)
          (nrun_fx salts (node_new cB 1) ex_evs) = true.
Proof. split; vm_compute; reflexivity. Qed.

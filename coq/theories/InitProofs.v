From VpnModel Require Import Base Nonce Replay Core CoreProofs Conn PeerCrypto NegotiateProofs Rotation2Proofs.
From Coq Require Import ZifyBool ZifyNat ZifyN.

Definition is_success (r : res init_result) : bool := match r with Ok (ISuccess _ _) => true | _ => false end.
Definition closed_stage (s : init_state) : Prop := i_stage s = WAITING_TO_CLOSE \/ i_stage s = CLOSING.

(* tactic: walk through the decision tree of handle_init *)
Ltac hi_cases :=
  repeat match goal with
         | |- context [if ?c then _ else _] => let E := fresh "E" in destruct c eqn:E
         | |- context [match ?x with Some _ => _ | None => _ end] => let E := fresh "E" in destruct x eqn:E
         | |- context [match ?x with Ok _ => _ | Err _ => _ | Panic _ => _ end] => let E := fresh "E" in destruct x eqn:E
         | |- context [let '(_, _) := ?x in _] => let E := fresh "E" in destruct x eqn:E
         end.

(* once an object has completed (stage 4 or 5) no message makes it complete again, and it stays there *)
Lemma closed_no_success : forall ok s m, closed_stage s ->
  is_success (snd (fst (handle_init ok s m))) = false /\ fst (fst (handle_init ok s m)) = s.
Proof.
  intros ok s m Hc. unfold closed_stage in Hc. unfold handle_init.
  destruct (negb (existsb (N.eqb (im_signer m)) (i_trusted s))); [split; reflexivity|].
  match goal with |- context [if negb ?f then _ else _] => destruct (negb f) eqn:Ef end; [split; reflexivity|].
  assert (Hst : (im_stage m =? STAGE_PING) || (im_stage m =? STAGE_PONG) || (im_stage m =? STAGE_PENG) = true).
  { apply negb_false_iff in Ef. destruct (im_stage m =? STAGE_PING); [reflexivity|].
    destruct (im_stage m =? STAGE_PONG); [reflexivity|]. destruct (im_stage m =? STAGE_PENG); [reflexivity|discriminate]. }
  destruct (((i_salt s =? im_salt m) && (i_node s =? im_node m)) || (i_node s =? im_node m)); [split; reflexivity|].
  assert (Hmis : negb (im_stage m =? i_stage s) = true).
  { unfold STAGE_PING, STAGE_PONG, STAGE_PENG, WAITING_TO_CLOSE, CLOSING in *. destruct Hc as [Hc|Hc]; rewrite Hc; unfold WAITING_TO_CLOSE, CLOSING; lia. }
  assert (Hnd : (i_stage s =? STAGE_PONG) = false).
  { destruct Hc as [Hc|Hc]; rewrite Hc; reflexivity. }
  rewrite Hmis, Hnd. cbn [andb negb].
  destruct (i_stage s =? CLOSING); [split; reflexivity|].
  destruct (i_last s); split; reflexivity.
Qed.

(* a success moves the object into stage 4 (initiator) or 5 (responder) *)
Lemma success_closes : forall ok s m p ini, snd (fst (handle_init ok s m)) = Ok (ISuccess p ini) ->
  closed_stage (fst (fst (handle_init ok s m))).
Proof.
  intros ok s m p ini. unfold handle_init.
  hi_cases; cbn [fst snd upd_init i_stage]; intros H; try discriminate H;
    unfold closed_stage; cbn [i_stage upd_init]; try (left; reflexivity); try (right; reflexivity).
Qed.

(* C05-T3: an object completes at most once over any sequence of messages *)
Fixpoint run_init (ok : bytes -> bool) (s : init_state) (ms : list imsg) : init_state * N :=
  match ms with
  | [] => (s, 0)
  | m :: t => let '(s', r, _) := handle_init ok s m in
              let '(s'', n) := run_init ok s' t in (s'', (if is_success r then 1 else 0) + n)
  end.

Lemma run_closed : forall ok ms s, closed_stage s -> snd (run_init ok s ms) = 0.
Proof.
  intros ok ms. induction ms as [|m t IH]; intros s Hc; [reflexivity|].
  cbn [run_init]. destruct (closed_no_success ok s m Hc) as [H1 H2].
  destruct (handle_init ok s m) as [[s' r] w]. cbn [fst snd] in *. subst s'.
  specialize (IH s Hc). destruct (run_init ok s t) as [s'' n]. cbn [snd] in *. rewrite H1, IH. reflexivity.
Qed.

Theorem at_most_once : forall ok ms s, snd (run_init ok s ms) <= 1.
Proof.
  intros ok ms. induction ms as [|m t IH]; intros s; [cbn; lia|].
  cbn [run_init]. destruct (handle_init ok s m) as [[s' r] w] eqn:E.
  destruct (is_success r) eqn:Es.
  - assert (Hc : closed_stage s').
    { destruct r as [[|p ini]| |]; try discriminate.
      pose proof (success_closes ok s m p ini) as H. rewrite E in H. cbn [fst snd] in H. apply H. reflexivity. }
    pose proof (run_closed ok t s' Hc) as H0. destruct (run_init ok s' t) as [s'' n]. cbn [snd] in *. lia.
  - specialize (IH s'). destruct (run_init ok s' t) as [s'' n]. cbn [snd] in *. lia.
Qed.

(* C05-T2: the end that completes as handshake responder creates its rotation state as rotation
   initiator (and emits message 1), the handshake initiator does not *)
Theorem roles : forall ok p m p' payload ini w,
  pc_handle_init ok p m = (p', Ok (MInitializedWithReply payload), w) \/ pc_handle_init ok p m = (p', Ok (MInitialized payload), w) ->
  forall i, pc_init p = Some i -> snd (fst (handle_init ok i m)) = Ok (ISuccess payload ini) ->
  match pc_core p' with
  | None => pc_plain p' = true
  | Some _ => exists rs, pc_rot p' = Some rs /\ (if ini then r_mid rs = 0 /\ r_proposed rs = None else r_mid rs = 1 /\ r_proposed rs <> None)
  end.
Proof.
  intros ok p m p' payload ini w H i Hi Hs. unfold pc_handle_init in H. rewrite Hi in H.
  destruct (handle_init ok i m) as [[i' r] reply]. cbn [fst snd] in Hs. subst r.
  destruct ini.
  - destruct (i_core i') as [c|] eqn:Ec; destruct H as [H|H]; inversion H; subst; cbn [pc_core pc_set with_alg pc_rot pc_plain];
      try reflexivity; eexists; split; try reflexivity; split; reflexivity.
  - destruct (i_core i') as [c|] eqn:Ec.
    + cbn [rot_new] in H. destruct (core_encrypt c _) as [c1 d]. destruct H as [H|H]; inversion H; subst; cbn [pc_core pc_set with_alg pc_rot].
      eexists. split; [reflexivity|]. split; [reflexivity|discriminate].
    + destruct H as [H|H]; inversion H; subst; reflexivity.
Qed.

(* C05-T4: the unwrap of the ECDH private key (Panic 11) is unreachable: an object awaiting the pong
   holds its private key, and keeps it unless the step ends in a fatal error (after which the node
   drops the object) *)
Definition ecdh_inv (s : init_state) : Prop := i_stage s = STAGE_PONG -> i_ecdh s <> None.

Lemma ecdh_inv_new : forall node salt payload key trusted al fresh rnd, ecdh_inv (init_new node salt payload key trusted al fresh rnd).
Proof. intros. unfold ecdh_inv, init_new. cbn. unfold STAGE_PING, STAGE_PONG. discriminate. Qed.

Lemma ecdh_inv_ping : forall s, ecdh_inv (fst (init_send_ping s)).
Proof.
  intros s. unfold init_send_ping, init_send. cbn [N.eqb STAGE_PING]. unfold ecdh_inv. cbn. intros _. discriminate.
Qed.

Lemma select_never_panics : forall a b s, select_algorithm a b <> Panic s.
Proof. intros a b s. unfold select_algorithm. destruct (a_plain a && a_plain b); [discriminate|]. destruct (candidates _ _); discriminate. Qed.

Lemma no_panic11 : forall ok s m, ecdh_inv s -> snd (fst (handle_init ok s m)) <> Panic 11.
Proof.
  intros ok s m Hinv. unfold handle_init.
  hi_cases; cbn [fst snd]; try discriminate.
  all: try (match goal with H : select_algorithm _ _ = Panic _ |- _ => exfalso; exact (select_never_panics _ _ _ H) end).
  (* remaining: the pong branch with i_ecdh = None *)
  all: exfalso.
  all: repeat match goal with H : (_ && _) = true |- _ => apply andb_true_iff in H; destruct H end.
  all: repeat match goal with H : negb _ = false |- _ => apply negb_false_iff in H end.
  all: repeat match goal with H : (_ =? _) = true |- _ => apply N.eqb_eq in H end.
  all: try (unfold ecdh_inv in Hinv; cbn [upd_init i_stage i_ecdh] in *;
            unfold STAGE_PING, STAGE_PONG, STAGE_PENG in *; congruence).
  all: unfold ecdh_inv in Hinv; cbn [upd_init i_stage i_ecdh] in *;
       assert (Hst : i_stage s = STAGE_PONG) by (unfold STAGE_PING, STAGE_PONG, STAGE_PENG in *; lia);
       apply Hinv in Hst; congruence.
Qed.

(* C04/C05: the two ends of a handshake compare the same two salted hashes in opposite order, so
   they take opposite halves of the nonce space unless both (salt, node id) pairs coincide — which
   handle_init rejects as a connection to self *)
Lemma hash_gt_opposite : forall s1 n1 s2 n2, (s1 <> s2 \/ n1 <> n2) ->
  hash_gt s1 n1 s2 n2 = negb (hash_gt s2 n2 s1 n1).
Proof.
  intros s1 n1 s2 n2 H. unfold hash_gt.
  destruct (s2 <? s1) eqn:A, (s1 <? s2) eqn:B, (s1 =? s2) eqn:C, (s2 =? s1) eqn:D, (n2 <? n1) eqn:E, (n1 <? n2) eqn:F;
    cbn; try reflexivity; exfalso; lia.
Qed.

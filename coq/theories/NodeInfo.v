(* Model of the NodeInfo wire codec (src/messages.rs).  Socket addresses are byte strings: 6 bytes
   (IPv4 + port) or 18 bytes (IPv6 + port).  The decoder is modelled with the `Take` reader's limit
   semantics, including the fact that fixed-size parts which are longer than needed are NOT skipped
   to their end (parsing continues right behind the bytes actually read). *)
From VpnModel Require Import Base RangeMatch.

Record peer_info := { pi_node : option bytes; pi_addrs : list bytes }.
Record node_info := {
  ni_node : bytes;
  ni_peers : list peer_info;
  ni_claims : list (bytes * N);
  ni_timeout : option N;
  ni_addrs : list bytes }.

Definition is_v4a (a : bytes) : bool := Nat.eqb (length a) 6.

(* at most 7 addresses per family survive: `while len >= 8 { pop }` *)
Definition split_addrs (l : list bytes) : list bytes * list bytes :=
  (firstn 7 (filter (fun a => negb (is_v4a a)) l), firstn 7 (filter is_v4a l)).

Definition enc_addrs (flag_extra : N) (l : list bytes) : bytes :=
  let '(v6, v4) := split_addrs l in
  [lenN v6 * 8 + lenN v4 + flag_extra] ++ concat v6 ++ concat v4.

Definition enc_peer (p : peer_info) : bytes :=
  match pi_node p with
  | Some id => let e := enc_addrs 128 (pi_addrs p) in
               match e with f :: rest => f :: id ++ rest | [] => [] end
  | None => enc_addrs 0 (pi_addrs p)
  end.

Definition enc_part (tag : N) (body : bytes) : bytes := tag :: be_enc 2 (lenN body) ++ body.

Definition ni_encode (x : node_info) : bytes :=
  enc_part 4 (ni_node x)
  ++ enc_part 1 (concat (map enc_peer (ni_peers x)))
  ++ enc_part 2 (concat (map range_write (ni_claims x)))
  ++ (match ni_timeout x with Some t => enc_part 3 (be_enc 2 t) | None => [] end)
  ++ enc_part 5 (enc_addrs 0 (ni_addrs x))
  ++ [0].

(* ---- decoder ---- *)

(* take n bytes from a (possibly too short) slice *)
Definition take_n (n : nat) (d : bytes) : option (bytes * bytes) :=
  if (length d <? n)%nat then None else Some (firstn n d, skipn n d).

Fixpoint read_addrs_n (size : nat) (k : nat) (d : bytes) : option (list bytes * bytes) :=
  match k with
  | O => Some ([], d)
  | S k' => match take_n size d with
            | None => None
            | Some (a, r) => match read_addrs_n size k' r with
                             | None => None
                             | Some (l, r') => Some (a :: l, r')
                             end
            end
  end.

(* read_addr_list_inner *)
Definition read_addr_list_inner (flags : N) (d : bytes) : option (list bytes * bytes) :=
  let n4 := N.to_nat (N.land flags 7) in
  let n6 := N.to_nat (N.land flags 56 / 8) in
  match read_addrs_n 18 n6 d with
  | None => None
  | Some (l6, r) => match read_addrs_n 6 n4 r with
                    | None => None
                    | Some (l4, r') => Some (l6 ++ l4, r')
                    end
  end.

(* decode_peer_list_part: `sub` is what the Take reader can deliver, `limit` its remaining limit *)
Fixpoint dec_peers (fuel : nat) (limit : nat) (sub : bytes) : option (list peer_info) :=
  match fuel with
  | O => None
  | S f =>
      if Nat.eqb limit 0 then Some [] else
      match sub with
      | [] => None
      | flags :: r0 =>
          let has_id := negb (N.land flags 128 =? 0) in
          match (if has_id then take_n 16 r0 else Some ([], r0)) with
          | None => None
          | Some (id, r1) =>
              match read_addr_list_inner flags r1 with
              | None => None
              | Some (addrs, r2) =>
                  let used := (length sub - length r2)%nat in
                  match dec_peers f (limit - used) r2 with
                  | None => None
                  | Some ps => Some ({| pi_node := if has_id then Some id else None; pi_addrs := addrs |} :: ps)
                  end
              end
          end
      end
  end.

Fixpoint dec_claims (fuel : nat) (limit : nat) (sub : bytes) : option (list (bytes * N)) :=
  match fuel with
  | O => None
  | S f =>
      if Nat.eqb limit 0 then Some [] else
      match range_read sub with
      | Ok (c, r) => match dec_claims f (limit - (length sub - length r)) r with
                     | None => None
                     | Some cs => Some (c :: cs)
                     end
      | _ => None
      end
  end.

Record ni_acc := { acc_peers : list peer_info; acc_claims : list (bytes * N); acc_timeout : option N;
                   acc_node : option bytes; acc_addrs : list bytes }.

Fixpoint dec_parts (fuel : nat) (acc : ni_acc) (d : bytes) : option ni_acc :=
  match fuel with
  | O => None
  | S f =>
      match d with
      | [] => None
      | part :: r0 =>
          if part =? 0 then Some acc else
          match r0 with
          | l1 :: l0 :: r1 =>
              let plen := N.to_nat (l1 * 256 + l0) in
              let sub := firstn plen r1 in
              if part =? 1 then
                match dec_peers (S plen) plen sub with
                | None => None
                | Some ps => dec_parts f {| acc_peers := ps; acc_claims := acc_claims acc; acc_timeout := acc_timeout acc;
                                            acc_node := acc_node acc; acc_addrs := acc_addrs acc |} (skipn plen r1)
                end
              else if part =? 2 then
                match dec_claims (S plen) plen sub with
                | None => None
                | Some cs => dec_parts f {| acc_peers := acc_peers acc; acc_claims := cs; acc_timeout := acc_timeout acc;
                                            acc_node := acc_node acc; acc_addrs := acc_addrs acc |} (skipn plen r1)
                end
              else if part =? 3 then
                match take_n 2 sub with
                | None => None
                | Some (t, _) => dec_parts f {| acc_peers := acc_peers acc; acc_claims := acc_claims acc; acc_timeout := Some (be_val t);
                                                acc_node := acc_node acc; acc_addrs := acc_addrs acc |} (skipn 2 r1)
                end
              else if part =? 4 then
                match take_n 16 sub with
                | None => None
                | Some (id, _) => dec_parts f {| acc_peers := acc_peers acc; acc_claims := acc_claims acc; acc_timeout := acc_timeout acc;
                                                 acc_node := Some id; acc_addrs := acc_addrs acc |} (skipn 16 r1)
                end
              else if part =? 5 then
                match sub with
                | [] => None
                | flags :: s1 =>
                    match read_addr_list_inner flags s1 with
                    | None => None
                    | Some (addrs, s2) =>
                        dec_parts f {| acc_peers := acc_peers acc; acc_claims := acc_claims acc; acc_timeout := acc_timeout acc;
                                       acc_node := acc_node acc; acc_addrs := addrs |} (skipn (length sub - length s2) r1)
                    end
                end
              else
                if (length r1 <? plen)%nat then None else dec_parts f acc (skipn plen r1)
          | _ => None
          end
      end
  end.

Definition ni_decode (d : bytes) : res node_info :=
  match dec_parts (S (length d)) {| acc_peers := []; acc_claims := []; acc_timeout := None; acc_node := None; acc_addrs := [] |} d with
  | Some a => match acc_node a with
              | Some id => Ok {| ni_node := id; ni_peers := acc_peers a; ni_claims := acc_claims a; ni_timeout := acc_timeout a; ni_addrs := acc_addrs a |}
              | None => Err 1
              end
  | None => Err 1
  end.

(* the format's normalisation: at most seven addresses per family, IPv6 before IPv4 *)
Definition norm_addrs (l : list bytes) : list bytes := let '(v6, v4) := split_addrs l in v6 ++ v4.
Definition ni_normalise (x : node_info) : node_info :=
  {| ni_node := ni_node x;
     ni_peers := map (fun p => {| pi_node := pi_node p; pi_addrs := norm_addrs (pi_addrs p) |}) (ni_peers x);
     ni_claims := ni_claims x; ni_timeout := ni_timeout x; ni_addrs := norm_addrs (ni_addrs x) |}.

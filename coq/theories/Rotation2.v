(* Two ends of one connection running the key rotation over an adversarial network: every rotation
   message ever sent stays available and may be delivered any number of times, in any order, or never.
   (The real delivery path can additionally refuse a message — replay window, missing key —, which only
   removes behaviours; this superset is sound for the safety invariant.) *)
From VpnModel Require Import Base Nonce Replay Core Conn PeerCrypto.

Record rend := { e_rot : rot_state; e_core : core; e_fresh : N }.

Definition rnd0 : bytes := zeros 6.

(* the rotation part of PeerCrypto::every_second when the counter reaches ROTATE_INTERVAL *)
Definition rend_cycle (e : rend) : rend * option rot_msg :=
  let '(rs', m, rk, fr) := rot_cycle (e_rot e) (e_fresh e) in
  ({| e_rot := rs'; e_core := apply_rotated (e_core e) rk rnd0; e_fresh := fr |}, m).

(* handle_rotate_message on a decoded message *)
Definition rend_deliver (e : rend) (m : rot_msg) : res rend :=
  match rot_process (e_rot e) m (e_fresh e) with
  | (Ok (rs', rk), fr) => Ok {| e_rot := rs'; e_core := apply_rotated (e_core e) rk rnd0; e_fresh := fr |}
  | (Err c, _) => Err c
  | (Panic s, _) => Panic s
  end.

Record rsys := { ea : rend; eb : rend; to_a : list rot_msg; to_b : list rot_msg }.

Inductive rstep :=
| RCycleA | RCycleB
| RDeliverA (k : nat) | RDeliverB (k : nat)     (* k-th message ever sent to that end *)
| RTickA | RTickB                               (* ordinary second: window ticks only *)
| RSealA (p : bytes) | RSealB (p : bytes).      (* payload sealing advances a counter only *)

Definition app_opt {A} (l : list A) (o : option A) : list A := match o with Some x => l ++ [x] | None => l end.

Definition with_core (e : rend) (c : core) : rend := {| e_rot := e_rot e; e_core := c; e_fresh := e_fresh e |}.

(* Panics (agree_ephemeral on a malformed public key) stop the system: modelled by staying put and
   flagging; the invariant shows they do not occur between honest ends *)
Definition rsys_step (s : rsys) (o : rstep) : rsys * bool (* panicked *) :=
  match o with
  | RCycleA => let '(e, m) := rend_cycle (ea s) in ({| ea := e; eb := eb s; to_a := to_a s; to_b := app_opt (to_b s) m |}, false)
  | RCycleB => let '(e, m) := rend_cycle (eb s) in ({| ea := ea s; eb := e; to_a := app_opt (to_a s) m; to_b := to_b s |}, false)
  | RDeliverA k =>
      match nth_error (to_a s) k with
      | None => (s, false)
      | Some m => match rend_deliver (ea s) m with
                  | Ok e => ({| ea := e; eb := eb s; to_a := to_a s; to_b := to_b s |}, false)
                  | Err _ => (s, false)
                  | Panic _ => (s, true)
                  end
      end
  | RDeliverB k =>
      match nth_error (to_b s) k with
      | None => (s, false)
      | Some m => match rend_deliver (eb s) m with
                  | Ok e => ({| ea := ea s; eb := e; to_a := to_a s; to_b := to_b s |}, false)
                  | Err _ => (s, false)
                  | Panic _ => (s, true)
                  end
      end
  | RTickA => ({| ea := with_core (ea s) (core_tick (e_core (ea s))); eb := eb s; to_a := to_a s; to_b := to_b s |}, false)
  | RTickB => ({| ea := ea s; eb := with_core (eb s) (core_tick (e_core (eb s))); to_a := to_a s; to_b := to_b s |}, false)
  | RSealA p => ({| ea := with_core (ea s) (fst (core_encrypt (e_core (ea s)) p)); eb := eb s; to_a := to_a s; to_b := to_b s |}, false)
  | RSealB p => ({| ea := ea s; eb := with_core (eb s) (fst (core_encrypt (e_core (eb s)) p)); to_a := to_a s; to_b := to_b s |}, false)
  end.

Fixpoint rsys_run (s : rsys) (ops : list rstep) : rsys * bool :=
  match ops with
  | [] => (s, false)
  | o :: t => let '(s', p) := rsys_step s o in if p then (s', true) else rsys_run s' t
  end.

(* the state right after a handshake with negotiated key k0: A is the rotation initiator (the
   handshake responder), its first message is already on its way *)
Definition rsys_init (k0 da db fa fb : N) (ha : bool) : rsys :=
  let '(ra, m, fa') := rot_new true fa in
  let '(rb, _, fb') := rot_new false fb in
  {| ea := {| e_rot := ra; e_core := core_new k0 da ha rnd0 rnd0 rnd0 rnd0; e_fresh := fa' |};
     eb := {| e_rot := rb; e_core := core_new k0 db (negb ha) rnd0 rnd0 rnd0 rnd0; e_fresh := fb' |};
     to_a := []; to_b := app_opt [] m |}.

(* the key X seals with, and what Y holds under that key id *)
Definition send_key (x : rend) : N := s_key (get_slot (e_core x) (current (e_core x))).
Definition held_key (y x : rend) : N := s_key (get_slot (e_core y) (current (e_core x))).

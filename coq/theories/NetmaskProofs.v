From VpnModel Require Import Base Netmask.
From Coq Require Import ZifyBool ZifyNat ZifyN.
Ltac Zify.zify_post_hook ::= Z.div_mod_to_equations.

(* the mask with p leading one bits *)
Definition leading_ones (p : N) : N := 2 ^ 32 - 2 ^ (32 - p).

Definition range33 : list N := map N.of_nat (seq 0 33).
Lemma in_range33 : forall p, p <= 32 -> In p range33.
Proof. intros p H. unfold range33. apply in_map_iff. exists (N.to_nat p). split; [lia|]. apply in_seq. lia. Qed.

Lemma mask_sweep : forallb (fun p => mask_of_prefix p =? leading_ones p) range33 = true.
Proof. vm_compute. reflexivity. Qed.

(* C20-T4 (numeric half): every prefix 0..32 gives the mask with that many leading one bits
   (the domain is finite: 33 values, swept inside the kernel and lifted) *)
Theorem mask_spec : forall p, p <= 32 -> mask_of_prefix p = leading_ones p.
Proof.
  intros p H. pose proof mask_sweep as S. rewrite forallb_forall in S.
  specialize (S p (in_range33 p H)). apply N.eqb_eq. exact S.
Qed.

(* the whole function never panics, whatever the text *)
Theorem netmask_no_panic : forall text ip_ok, is_panic (parse_ip_netmask text ip_ok) = false.
Proof.
  intros text ip_ok. unfold parse_ip_netmask.
  destruct (parse_u8 _) as [p|]; [|reflexivity].
  destruct (32 <? p); [reflexivity|]. destruct (negb ip_ok); reflexivity.
Qed.

Theorem netmask_result : forall text ip_ok m, parse_ip_netmask text ip_ok = Ok m ->
  exists p, p <= 32 /\ m = leading_ones p /\ ip_ok = true /\
    parse_u8 (len_part text) = Some p.
Proof.
  intros text ip_ok m H. unfold parse_ip_netmask in H.
  destruct (parse_u8 _) as [p|] eqn:Ep; [|discriminate].
  destruct (32 <? p) eqn:E32; [discriminate|]. destruct ip_ok; [|discriminate]. cbn [negb] in H.
  inversion H. exists p. repeat split; try lia. apply mask_spec. lia.
Qed.

Theorem netmask_default_24 : forall text, find_byte 47 text = None ->
  parse_ip_netmask text true = Ok (leading_ones 24).
Proof. intros text H. unfold parse_ip_netmask, len_part. rewrite H. vm_compute. reflexivity. Qed.

Theorem netmask_overlong : forall text ip_ok p,
  parse_u8 (len_part text) = Some p ->
  32 < p -> parse_ip_netmask text ip_ok = Err 1.
Proof. intros text ip_ok p H Hp. unfold parse_ip_netmask. rewrite H. assert ((32 <? p) = true) as -> by lia. reflexivity. Qed.

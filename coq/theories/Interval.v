(* Model of the announcement-interval arithmetic (Config::get_keepalive in src/config.rs,
   the rescheduling expression in GenericCloud::housekeep in src/cloud.rs) and of the reconnect
   back-off (reconnect_to_peers). u16/u32 semantics written out; the subtractions saturate
   (after the fix: of finding F7; before it they underflowed: panic in debug builds, wrap in release). *)
From VpnModel Require Import Base.

Definition sat_sub (a b : N) : N := if a <? b then 0 else a - b.
Definition u16 (x : N) : N := x mod 65536.

(* Config::get_keepalive : u32 *)
Definition get_keepalive (peer_timeout : N) (keepalive : option N) : N :=
  match keepalive with
  | Some d => d
  | None => N.max (sat_sub (peer_timeout / 2) 60) 1
  end.

(* update_freq = get_keepalive() as u16 *)
Definition update_freq (peer_timeout : N) (keepalive : option N) : N := u16 (get_keepalive peer_timeout keepalive).

Fixpoint minl (d : N) (l : list N) : N :=
  match l with [] => d | x :: t => match t with [] => x | _ => N.min x (minl d t) end end.

(* min_peer_timeout = peers.map(peer_timeout).min().unwrap_or(300);
   interval = min(update_freq, max(min_peer_timeout / 2 - 60, 1)) *)
Definition announce_interval (upd_freq : N) (advertised : list N) : N :=
  let mpt := minl 300 advertised in
  N.min upd_freq (N.max (sat_sub (mpt / 2) 60) 1).

(* reconnect back-off: one pass of the scheduling part of reconnect_to_peers for an entry that is
   due (next <= now) and not connected.  tries, timeout : u16 *)
Record backoff := { tries : N; btimeout : N; bnext : Z }.
Definition backoff0 (now : Z) : backoff := {| tries := 0; btimeout := 1; bnext := now |}.
Definition backoff_step (now : Z) (e : backoff) : backoff :=
  if (now <? bnext e)%Z then e else
  let tr := tries e + 1 in
  let '(tr, to) := if 10 <? tr then (0, u16 (btimeout e * 2)) else (tr, btimeout e) in
  let to := if 3600 <? to then 3600 else to in
  {| tries := tr; btimeout := to; bnext := (now + Z.of_N to)%Z |}.

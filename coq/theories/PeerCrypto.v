(* Model of PeerCrypto (src/crypto/common.rs): composition of handshake, crypto core and key rotation,
   the 0xff init marker, the message-type byte, the 120 s rotation counter, the `unencrypted` mode. *)
From VpnModel Require Import Base Nonce Replay Core Conn.

Definition MESSAGE_TYPE_ROTATION := 16.
Definition ROTATE_INTERVAL := 120.

(* what travels in a UDP datagram *)
Inductive wire :=
| WInit (m : imsg)            (* 0xff + a message that verifies under the key pair im_signer m *)
| WBadInit                    (* 0xff + anything that does not parse / verify: forged, tampered, garbage *)
| WEmpty                      (* zero-length datagram *)
| WData (d : dgram)           (* first byte <> 0xff: header + ciphertext (or plain bytes) *)
| WPlain (b : bytes).         (* unencrypted mode: type byte + payload, first byte <> 0xff *)

Record peer_crypto := {
  pc_init : option init_state;
  pc_rot : option rot_state;
  pc_plain : bool;              (* `unencrypted` *)
  pc_core : option core;
  pc_counter : N;
  pc_fresh : N;                 (* fresh names for rotation keys *)
  pc_alg : option N             (* negotiated cipher (ghost: the code reads it off the core's key) *)
}.

Definition pc_new (node salt : N) (payload : bytes) (key : N) (trusted : list N) (al : algos) (fresh : N) (rnd : bytes) : peer_crypto :=
  {| pc_init := Some (init_new node salt payload key trusted al fresh rnd); pc_rot := None; pc_plain := false;
     pc_core := None; pc_counter := 0; pc_fresh := fresh + 1000000; pc_alg := None |}.

Inductive msg_result :=
| MMessage (ty : N) (body : bytes)     (* Message(type) with the opened payload left in the buffer *)
| MInitialized (p : bytes)
| MInitializedWithReply (p : bytes)
| MReply
| MNone.

(* error classes: Err 1 = ordinary (Crypto / Parse / CryptoInit / InvalidCryptoState), Err 2 = CryptoInitFatal *)

Definition pc_set (p : peer_crypto) (i : option init_state) (r : option rot_state) (pl : bool) (c : option core) (cnt fresh : N) :=
  {| pc_init := i; pc_rot := r; pc_plain := pl; pc_core := c; pc_counter := cnt; pc_fresh := fresh; pc_alg := pc_alg p |}.
Definition with_alg (p : peer_crypto) (a : option N) : peer_crypto :=
  {| pc_init := pc_init p; pc_rot := pc_rot p; pc_plain := pc_plain p; pc_core := pc_core p; pc_counter := pc_counter p;
     pc_fresh := pc_fresh p; pc_alg := a |}.

(* initialize: Err if the handshake object is gone or already started *)
Definition pc_initialize (p : peer_crypto) : peer_crypto * res wire :=
  match pc_init p with
  | None => (p, Err 1)
  | Some i => if negb (i_stage i =? STAGE_PING) then (p, Err 1)
              else let '(i', m) := init_send_ping i in
                   (pc_set p (Some i') (pc_rot p) (pc_plain p) (pc_core p) (pc_counter p) (pc_fresh p), Ok (WInit m))
  end.

(* seal type byte + body (encrypt_message after prepend_byte) *)
Definition pc_seal (p : peer_crypto) (ty : N) (body : bytes) : peer_crypto * res wire :=
  if pc_plain p then (p, Ok (WPlain (ty :: body)))
  else match pc_core p with
       | None => (p, Err 1)
       | Some c => let '(c', d) := core_encrypt c (ty :: body) in
                   (pc_set p (pc_init p) (pc_rot p) (pc_plain p) (Some c') (pc_counter p) (pc_fresh p), Ok (WData d))
       end.

(* send_message (type <> rotation) *)
Definition pc_send (p : peer_crypto) (ty : N) (body : bytes) : peer_crypto * res wire := pc_seal p ty body.

Definition apply_rotated (c : core) (rk : option rotated) (rnd : bytes) : core :=
  match rk with Some k => core_rotate c (rk_key k) (rk_id k) (rk_use k) rnd | None => c end.

Definition pc_rnd (p : peer_crypto) : bytes := zeros 6.

(* handle_init_message *)
Definition pc_handle_init (payload_ok : bytes -> bool) (p : peer_crypto) (m : imsg) : peer_crypto * res msg_result * option wire :=
  match pc_init p with
  | None => (p, Err 1, None)
  | Some i =>
      let '(i', r, reply) := handle_init payload_ok i m in
      let p1 := pc_set p (Some i') (pc_rot p) (pc_plain p) (pc_core p) (pc_counter p) (pc_fresh p) in
      match r with
      | Err e => (p1, Err e, None)
      | Panic s => (p1, Panic s, None)
      | Ok IContinue =>
          (* Reply, possibly with an empty buffer (then an empty datagram is sent) *)
          (p1, Ok MReply, Some (match reply with Some rm => WInit rm | None => WEmpty end))
      | Ok (ISuccess payload is_initiator) =>
          let c := i_core i' in
          let i'' := upd_init i' (i_ecdh i') (i_stage i') (i_close_time i') (i_last i') None (i_selected i') (i_retries i') (i_fresh i') in
          let plain := match c with None => true | Some _ => pc_plain p end in
          let io := if i_stage i'' =? CLOSING then None else Some i'' in
          if is_initiator then
            (* the buffer holds the peng; rotation state created without sending *)
            let '(rs, _, fr) := rot_new false (pc_fresh p) in
            (with_alg (pc_set p io (match c with Some _ => Some rs | None => pc_rot p end) plain c (pc_counter p) fr) (i_selected i'),
             Ok (MInitializedWithReply payload), option_map WInit reply)
          else
            match c with
            | None => (pc_set p io (pc_rot p) true None (pc_counter p) (pc_fresh p), Ok (MInitialized payload), None)
            | Some c0 =>
                let '(rs, rm, fr) := rot_new true (pc_fresh p) in
                match rm with
                | None => (p1, Panic 12, None)   (* assert!(!buffer.is_empty()) *)
                | Some m1 =>
                    let '(c1, d) := core_encrypt c0 (MESSAGE_TYPE_ROTATION :: rot_encode m1) in
                    (with_alg (pc_set p io (Some rs) plain (Some c1) (pc_counter p) fr) (i_selected i'), Ok (MInitializedWithReply payload), Some (WData d))
                end
            end
      end
  end.

(* handle_rotate_message *)
Definition pc_handle_rotate (p : peer_crypto) (data : bytes) : peer_crypto * res unit :=
  if pc_plain p then (p, Ok tt) else
  match pc_rot p with
  | None => (p, Err 1)
  | Some rs =>
      match rot_handle rs data (pc_fresh p) with
      | (Err e, fr) => (pc_set p (pc_init p) (pc_rot p) (pc_plain p) (pc_core p) (pc_counter p) fr, Err 1)
      | (Panic s, fr) => (p, Panic s)
      | (Ok (rs', rk), fr) =>
          match rk, pc_core p with
          | Some _, None => (pc_set p (pc_init p) (Some rs') (pc_plain p) None (pc_counter p) fr, Err 1)
          | _, co => (pc_set p (pc_init p) (Some rs') (pc_plain p) (option_map (fun c => apply_rotated c rk (pc_rnd p)) co) (pc_counter p) fr, Ok tt)
          end
      end
  end.

(* handle_message.  Err 3 = "No message in buffer" is an ordinary error too (class 1). *)
Definition pc_handle (payload_ok : bytes -> bool) (p : peer_crypto) (w : wire) : peer_crypto * res msg_result * option wire :=
  match w with
  | WEmpty => (p, Err 1, None)
  | WBadInit => (match pc_init p with None => (p, Err 1, None) | Some _ => (p, Err 1, None) end)
  | WInit m => pc_handle_init payload_ok p m
  | WPlain b =>
      if pc_plain p then
        match b with
        | [] => (p, Err 1, None)
        | ty :: body =>
            if ty =? MESSAGE_TYPE_ROTATION then (p, Ok MNone, None) else (p, Ok (MMessage ty body), None)
        end
      else
        (* plain bytes reaching a crypto core: never a genuine seal *)
        match pc_core p with
        | None => (p, Err 1, None)
        | Some c => let '(c', _) := core_decrypt c (dgram_of_bytes b) in
                    (pc_set p (pc_init p) (pc_rot p) (pc_plain p) (Some c') (pc_counter p) (pc_fresh p), Err 1, None)
        end
  | WData d =>
      if pc_plain p then
        (* unencrypted mode reads the first byte as the type; sealed bytes: header byte = key id *)
        match d with
        | DShort O => (p, Err 1, None)
        | DShort (S _) => (p, Ok (MMessage 0 []), None)   (* not modelled further: see DESIGN (plain mode + foreign bytes) *)
        | DG keyid _ _ _ => if keyid =? MESSAGE_TYPE_ROTATION then (p, Ok MNone, None) else (p, Ok (MMessage keyid []), None)
        end
      else
        match pc_core p with
        | None => (p, Err 1, None)
        | Some c =>
            match core_decrypt c d with
            | (c', Ok plain) =>
                let p1 := pc_set p (pc_init p) (pc_rot p) (pc_plain p) (Some c') (pc_counter p) (pc_fresh p) in
                match plain with
                | [] => (p1, Panic 13, None)                (* take_prefix on an empty message: index at `end` *)
                | ty :: body =>
                    if ty =? MESSAGE_TYPE_ROTATION then
                      match pc_handle_rotate p1 body with
                      | (p2, Ok _) => (p2, Ok MNone, None)
                      | (p2, Err e) => (p2, Err 1, None)
                      | (p2, Panic s) => (p2, Panic s, None)
                      end
                    else (p1, Ok (MMessage ty body), None)
                end
            | (c', Err e) => (pc_set p (pc_init p) (pc_rot p) (pc_plain p) (Some c') (pc_counter p) (pc_fresh p), Err 1, None)
            | (c', Panic s) => (p, Panic s, None)
            end
        end
  end.

(* every_second *)
Definition pc_every_second (p : peer_crypto) : peer_crypto * res msg_result * option wire :=
  let c1 := option_map core_tick (pc_core p) in
  let '(io, ir) := match pc_init p with
                   | Some i => let '(i', r) := init_every_second i in (Some i', r)
                   | None => (None, Ok None)
                   end in
  match ir with
  | Err e => (pc_set p io (pc_rot p) (pc_plain p) c1 (pc_counter p) (pc_fresh p), Err 2, None)
  | Panic s => (p, Panic s, None)
  | Ok out =>
      let io' := match io with Some i => if i_stage i =? CLOSING then None else Some i | None => None end in
      match out with
      | Some m => (pc_set p io' (pc_rot p) (pc_plain p) c1 (pc_counter p) (pc_fresh p), Ok MReply, Some (WInit m))
      | None =>
          match pc_rot p with
          | None => (pc_set p io' None (pc_plain p) c1 (pc_counter p) (pc_fresh p), Ok MNone, None)
          | Some rs =>
              let cnt := pc_counter p + 1 in
              if cnt <? ROTATE_INTERVAL then (pc_set p io' (Some rs) (pc_plain p) c1 cnt (pc_fresh p), Ok MNone, None)
              else
                let '(rs', rm, rk, fr) := rot_cycle rs (pc_fresh p) in
                match rk, c1 with
                | Some _, None => (pc_set p io' (Some rs') (pc_plain p) None 0 fr, Err 1, None)
                | _, _ =>
                    let c2 := option_map (fun c => apply_rotated c rk (pc_rnd p)) c1 in
                    match rm with
                    | None => (pc_set p io' (Some rs') (pc_plain p) c2 0 fr, Ok MNone, None)
                    | Some m =>
                        let p2 := pc_set p io' (Some rs') (pc_plain p) c2 0 fr in
                        match pc_seal p2 MESSAGE_TYPE_ROTATION (rot_encode m) with
                        | (p3, Ok w) => (p3, Ok MReply, Some w)
                        | (p3, Err e) => (p3, Err 1, None)
                        | (p3, Panic s) => (p3, Panic s, None)
                        end
                    end
                end
          end
      end
  end.

Definition pc_has_init (p : peer_crypto) : bool := match pc_init p with Some _ => true | None => false end.
Definition pc_is_ready (p : peer_crypto) : bool := match pc_core p with Some _ => true | None => false end.

(* Base definitions shared by all models: bytes as N, the three-way outcome of fallible Rust code,
   big-endian conversions.  No proofs about the models live here. *)
From Coq Require Export List NArith ZArith Lia Bool.
Export ListNotations.
Open Scope N_scope.

Definition byte := N.
Definition bytes := list N.

(* Every fallible Rust function is modelled with an explicit three-way outcome:
   Ok v | Err class (a returned Err(..)) | Panic site (assert!, unwrap, slice index, overflow). *)
Inductive res (A : Type) : Type :=
| Ok (a : A)
| Err (class : N)
| Panic (site : N).
Arguments Ok {A} a.
Arguments Err {A} class.
Arguments Panic {A} site.

Definition is_panic {A} (r : res A) : bool := match r with Panic _ => true | _ => false end.
Definition is_err {A} (r : res A) : bool := match r with Err _ => true | _ => false end.
Definition is_ok {A} (r : res A) : bool := match r with Ok _ => true | _ => false end.

Definition bind {A B} (r : res A) (f : A -> res B) : res B :=
  match r with Ok a => f a | Err c => Err c | Panic s => Panic s end.

Definition all_bytes (l : bytes) : Prop := Forall (fun b => b < 256) l.
Definition all_bytesb (l : bytes) : bool := forallb (fun b => b <? 256) l.

(* big-endian value of a byte string *)
Fixpoint be_val_acc (acc : N) (l : bytes) : N :=
  match l with [] => acc | b :: t => be_val_acc (acc * 256 + b) t end.
Definition be_val (l : bytes) : N := be_val_acc 0 l.

(* big-endian encoding on exactly n bytes (value taken mod 256^n) *)
Fixpoint be_enc (n : nat) (v : N) : bytes :=
  match n with
  | O => []
  | S k => be_enc k (v / 256) ++ [v mod 256]
  end.

Definition nth_b (i : nat) (l : bytes) : N := nth i l 0.
Definition lenN {A} (l : list A) : N := N.of_nat (length l).

Fixpoint list_eqb (a b : bytes) : bool :=
  match a, b with
  | [], [] => true
  | x :: a', y :: b' => (x =? y) && list_eqb a' b'
  | _, _ => false
  end.

Fixpoint zeros (n : nat) : bytes := match n with O => [] | S k => 0 :: zeros k end.

(* C15, the other direction ("healthy peers never time out" needs the announcements to go out): whenever an announcement is due, the
   housekeeping tick sends it to EVERY current peer exactly once - in every reachable state, whether or not a late housekeeping step
   fails (c_hkfault): the announcement sits before the steps that can fail. *)
From VpnModel Require Import Base RangeMatch Table Nonce Replay Core Conn PeerCrypto NodeInfo Interval Node NodeProofs TrustProofs SurviveProofs
  NextHopProofs TickPeersProofs FloodProofs.

(* the node after the first three phases of housekeeping: expiry of silent peers, table sweep, crypto housekeeping *)
Definition hk3 (salts : list (N * N)) (now : Z) (n : node) : node :=
  let n1 := fst (expire_phase salts now n) in
  fst (crypto_housekeep salts now (upd n1 (n_peers n1) (n_pending n1) (n_own n1) (table_housekeep (n_table n1) now))).

Lemma expire_phase_inv : forall salts now n, ND n -> SE n -> ND (fst (expire_phase salts now n)) /\ SE (fst (expire_phase salts now n)).
Proof.
  intros salts now n Hnd Hse. unfold expire_phase.
  assert (G : forall l st, ND (fst st) /\ SE (fst st) -> ND (fst (fold_left (fun (acc : node * list effect) (addr : N) =>
      let '(m, fx) := acc in
      let m1 := upd m (adel (n_peers m) addr) (n_pending m) (n_own m) (table_remove_claims (n_table m) now addr) in
      let '(m2, fx') := connect_sock salts m1 addr in (m2, fx ++ fx')) l st)) /\ SE (fst (fold_left (fun (acc : node * list effect) (addr : N) =>
      let '(m, fx) := acc in
      let m1 := upd m (adel (n_peers m) addr) (n_pending m) (n_own m) (table_remove_claims (n_table m) now addr) in
      let '(m2, fx') := connect_sock salts m1 addr in (m2, fx ++ fx')) l st))).
  { induction l as [|a t IH]; intros [m fx] Hm; [exact Hm|]. cbn [fold_left]. apply IH. cbn [fst] in Hm. destruct Hm as [A B].
    pose proof (drop_and_redial_se salts now m a B) as G. pose proof (drop_and_redial_nd salts now m a A) as G2.
    destruct (connect_sock salts _ a) as [m2 fx']. split; assumption. }
  apply (G _ (n, [])). split; assumption.
Qed.

Lemma hk3_inv : forall salts now n, ND n -> SE n -> ND (hk3 salts now n) /\ SE (hk3 salts now n).
Proof.
  intros salts now n Hnd Hse. unfold hk3. destruct (expire_phase_inv salts now n Hnd Hse) as [A B].
  set (n1 := fst (expire_phase salts now n)) in *.
  set (n2 := upd n1 (n_peers n1) (n_pending n1) (n_own n1) (table_housekeep (n_table n1) now)).
  assert (A2 : ND n2) by exact A. assert (B2 : SE n2) by exact B.
  split; [apply crypto_housekeep_nd; exact A2|apply crypto_housekeep_se; assumption].
Qed.

Theorem housekeeping_announces_to_every_peer : forall salts now n, ND n -> SE n -> (n_next_peers (hk3 salts now n) <= now)%Z ->
  let n3 := hk3 salts now n in
  let ann := snd (broadcast n3 MESSAGE_TYPE_NODE_INFO (ni_encode (create_node_info n3))) in
  (exists pre post, snd (housekeep salts now n) = pre ++ ann ++ post) /\
  map dst_of ann = map (fun e => Some (fst e)) (n_peers n3).
Proof.
  intros salts now n Hnd Hse Hdue. cbv zeta. destruct (hk3_inv salts now n Hnd Hse) as [A3 B3].
  split; [|apply broadcast_every_peer_once; [exact (proj1 A3)|exact B3]].
  unfold housekeep. fold (expire_phase salts now n). unfold hk3 in *.
  destruct (expire_phase salts now n) as [n1 fx1]. cbn [fst] in *.
  destruct (crypto_housekeep salts now (upd n1 (n_peers n1) (n_pending n1) (n_own n1) (table_housekeep (n_table n1) now))) as [m3 fx3]. cbn [fst] in *.
  apply Z.leb_le in Hdue. rewrite Hdue.
  destruct (broadcast m3 MESSAGE_TYPE_NODE_INFO (ni_encode (create_node_info m3))) as [m fx]. cbn [snd].
  destruct (reconnect_step salts now _) as [n5 fx5]. cbn [snd].
  exists (fx1 ++ fx3), fx5. rewrite <- !app_assoc. reflexivity.
Qed.

(* the announcement timer is touched by nothing before the announcement step *)
Lemma connect_sock_next_peers : forall salts n a, n_next_peers (fst (connect_sock salts n a)) = n_next_peers n.
Proof.
  intros. unfold connect_sock. destruct (ahas (n_peers n) a || memN a (n_own n) || ahas (n_pending n) a); [reflexivity|].
  unfold new_instance. destruct (pc_initialize _) as [pc' [w|e|s]]; reflexivity.
Qed.

Lemma expire_phase_next_peers : forall salts now n, n_next_peers (fst (expire_phase salts now n)) = n_next_peers n.
Proof.
  intros salts now n. unfold expire_phase.
  assert (G : forall l st, n_next_peers (fst (fold_left (fun (acc : node * list effect) (addr : N) =>
      let '(m, fx) := acc in
      let m1 := upd m (adel (n_peers m) addr) (n_pending m) (n_own m) (table_remove_claims (n_table m) now addr) in
      let '(m2, fx') := connect_sock salts m1 addr in (m2, fx ++ fx')) l st)) = n_next_peers (fst st)).
  { induction l as [|a t IH]; intros [m fx]; [reflexivity|]. cbn [fold_left]. rewrite IH. cbn [fst].
    pose proof (connect_sock_next_peers salts (upd m (adel (n_peers m) a) (n_pending m) (n_own m) (table_remove_claims (n_table m) now a)) a) as K.
    destruct (connect_sock salts _ a) as [m2 fx']. exact K. }
  apply (G _ (n, [])).
Qed.

Lemma crypto_housekeep_next_peers : forall salts now n, n_next_peers (fst (crypto_housekeep salts now n)) = n_next_peers n.
Proof.
  intros salts now n. unfold crypto_housekeep.
  assert (P1 : n_next_peers (fst (fst (tick_pending n))) = n_next_peers n).
  { unfold tick_pending.
    assert (G : forall l st, n_next_peers (fst (fst (fold_left (fun (acc : node * list effect * list N) (e : N * peer_crypto) =>
      let '(m, fx, del) := acc in
      let addr := fst e in
      match aget (n_pending m) addr with
      | None => (m, fx, del)
      | Some pc =>
          let '(pc', r, w) := pc_every_second pc in
          let m' := upd m (n_peers m) (aset (n_pending m) addr pc') (n_own m) (n_table m) in
          match r with
          | Err _ => (m', fx, del ++ [addr])
          | Ok MReply => (m', fx ++ match w with Some x => [XSend addr x] | None => [] end, del)
          | _ => (m', fx, del)
          end
      end) l st))) = n_next_peers (fst (fst st))).
    { induction l as [|e t IH]; intros [[m fx] del]; [reflexivity|]. cbn [fold_left]. rewrite IH. cbn [fst].
      destruct (aget (n_pending m) (fst e)) as [pc|]; [|reflexivity].
      destruct (pc_every_second pc) as [[pc' r] w]. destruct r as [[ | | | | ]|c|s]; reflexivity. }
    apply (G (n_pending n) (n, [], [])). }
  destruct (tick_pending n) as [[n1 fx1] del1]. cbn [fst] in *.
  assert (P2 : n_next_peers (fst (fst (tick_peers n1))) = n_next_peers n1).
  { unfold tick_peers.
    assert (G : forall l st, n_next_peers (fst (fst (fold_left (fun (acc : node * list effect * list N) (e : N * peer_data) =>
      let '(m, fx, del) := acc in
      let addr := fst e in
      match aget (n_peers m) addr with
      | None => (m, fx, del)
      | Some pd =>
          let '(pc', r, w) := pc_every_second (p_crypto pd) in
          let pd' := {| p_addrs := p_addrs pd; p_timeout := p_timeout pd; p_peer_timeout := p_peer_timeout pd; p_node := p_node pd; p_crypto := pc' |} in
          let m' := upd m (aset (n_peers m) addr pd') (n_pending m) (n_own m) (n_table m) in
          match r with
          | Err _ => (m', fx, del ++ [addr])
          | Ok MReply => (m', fx ++ match w with Some x => [XSend addr x] | None => [] end, del)
          | _ => (m', fx, del)
          end
      end) l st))) = n_next_peers (fst (fst st))).
    { induction l as [|e t IH]; intros [[m fx] del]; [reflexivity|]. cbn [fold_left]. rewrite IH. cbn [fst].
      destruct (aget (n_peers m) (fst e)) as [pd|]; [|reflexivity].
      destruct (pc_every_second (p_crypto pd)) as [[pc' r] w]. destruct r as [[ | | | | ]|c|s]; reflexivity. }
    apply (G (n_peers n1) (n1, [], [])). }
  destruct (tick_peers n1) as [[n2 fx2] del2]. cbn [fst] in *.
  assert (H3 : forall l m, n_next_peers (fold_left (fun m addr => upd m (n_peers m) (adel (n_pending m) addr) (n_own m) (n_table m)) l m) = n_next_peers m).
  { induction l as [|a t IH]; intros m; [reflexivity|]. cbn [fold_left]. rewrite IH. reflexivity. }
  assert (H4 : forall l st, n_next_peers (fst (fold_left (fun (acc : node * list effect) (addr : N) =>
    let '(m, fx) := acc in
    if ahas (n_peers m) addr then
      let m2 := upd m (adel (n_peers m) addr) (n_pending m) (n_own m) (table_remove_claims (n_table m) now addr) in
      let '(m3, fx') := connect_sock salts m2 addr in (m3, fx ++ fx')
    else (m, fx)) l st)) = n_next_peers (fst st)).
  { induction l as [|a t IH]; intros [m fx]; [reflexivity|]. cbn [fold_left]. rewrite IH. cbn [fst].
    destruct (ahas (n_peers m) a); [|reflexivity].
    pose proof (connect_sock_next_peers salts (upd m (adel (n_peers m) a) (n_pending m) (n_own m) (table_remove_claims (n_table m) now a)) a) as K.
    destruct (connect_sock salts _ a) as [m3 fx']. exact K. }
  rewrite H4. cbn [fst]. rewrite H3, P2, P1. reflexivity.
Qed.

Lemma hk3_next_peers : forall salts now n, n_next_peers (hk3 salts now n) = n_next_peers n.
Proof. intros. unfold hk3. rewrite crypto_housekeep_next_peers. cbn [upd n_next_peers]. apply expire_phase_next_peers. Qed.

(* every reachable state, whatever the fault flag: a due announcement goes to every peer that is still a peer after the expiry and
   crypto phases of this very tick, once each *)
Theorem reachable_announcement_reaches_every_peer : forall salts c t0 evs now,
  let n := nrun salts (node_new c t0) evs in
  (n_next_peers n <= now)%Z ->
  let n3 := hk3 salts now n in
  let ann := snd (broadcast n3 MESSAGE_TYPE_NODE_INFO (ni_encode (create_node_info n3))) in
  (exists pre post, snd (housekeep salts now n) = pre ++ ann ++ post) /\
  map dst_of ann = map (fun e => Some (fst e)) (n_peers n3).
Proof.
  intros salts c t0 evs now n Hdue. destruct (reachable_se salts c t0 evs) as [Hse Hnd]. fold n in Hse, Hnd.
  apply housekeeping_announces_to_every_peer; [exact Hnd|exact Hse|]. rewrite hk3_next_peers. exact Hdue.
Qed.

(* non-vacuity: in the example state of NextHopProofs an announcement is due at time 5 and goes to the one peer *)
Lemma ex_announcement : (n_next_peers ex_b <= 5)%Z /\
  map dst_of (snd (broadcast (hk3 salts 5 ex_b) MESSAGE_TYPE_NODE_INFO (ni_encode (create_node_info (hk3 salts 5 ex_b))))) = [Some 1001].
Proof. split; vm_compute; [intro H; discriminate H|reflexivity]. Qed.

(* Model of to_base62 / from_base62 (src/util.rs), digit-buffer algorithms as written. *)
From VpnModel Require Import Base.

(* buf is little-endian; multiply by mult and add carry in base `base` *)
Fixpoint mul_add (base mult : N) (buf : list N) (carry : N) : list N * N :=
  match buf with
  | [] => ([], carry)
  | x :: t => let d := carry + x * mult in
              let '(t', c') := mul_add base mult t (d / base) in
              ((d mod base) :: t', c')
  end.

(* base62_add_mult_16: Panic 1 = assert!(d < 62), Panic 2 = buf[buflen] out of range (cap = 2*len) *)
Definition b62_step (cap : nat) (buf : list N) (m : N) : res (list N) :=
  let '(b, d) := mul_add 62 16 buf m in
  if negb (d <? 62) then Panic 1
  else if 0 <? d then (if (length b <? cap)%nat then Ok (b ++ [d]) else Panic 2)
  else Ok b.

Fixpoint b62_nibbles (cap : nat) (buf : list N) (ns : list N) : res (list N) :=
  match ns with
  | [] => Ok buf
  | m :: t => match b62_step cap buf m with
              | Ok b => b62_nibbles cap b t
              | Err c => Err c
              | Panic s => Panic s
              end
  end.

Definition nibbles (data : bytes) : list N := flat_map (fun b => [b / 16; b mod 16]) data.

(* digits most significant first, as values 0..61 *)
Definition to_base62_digits (data : bytes) : res (list N) :=
  match b62_nibbles (2 * length data) [] (nibbles data) with
  | Ok b => Ok (rev b)
  | Err c => Err c
  | Panic s => Panic s
  end.

Definition b62_char (d : N) : N := if d <? 10 then 48 + d else if d <? 36 then 65 + (d - 10) else 97 + (d - 36).
Definition b62_val (c : N) : option N :=
  if (48 <=? c) && (c <=? 57) then Some (c - 48)
  else if (65 <=? c) && (c <=? 90) then Some (c - 65 + 10)
  else if (97 <=? c) && (c <=? 122) then Some (c - 97 + 36)
  else None.

Definition to_base62 (data : bytes) : res bytes :=
  match to_base62_digits data with
  | Ok ds => Ok (map b62_char ds)
  | Err c => Err c
  | Panic s => Panic s
  end.

(* from_base62 on already decoded digit values *)
Definition from_step (buf : list N) (v : N) : list N :=
  let '(b, c) := mul_add 256 62 buf v in
  if 0 <? c then b ++ [c mod 256] else b.   (* `val as u8` *)

Definition from_base62_digits (ds : list N) : bytes := rev (fold_left from_step ds []).

Fixpoint chars_vals (s : bytes) : option (list N) :=
  match s with
  | [] => Some []
  | c :: t => match b62_val c with
              | None => None
              | Some v => option_map (cons v) (chars_vals t)
              end
  end.

Definition from_base62 (s : bytes) : res bytes :=
  match chars_vals s with
  | None => Err 1
  | Some ds => Ok (from_base62_digits ds)
  end.

Fixpoint strip0 (l : bytes) : bytes :=
  match l with 0 :: t => strip0 t | _ => l end.

(* value of a most-significant-first digit string *)
Fixpoint val_acc (base acc : N) (l : list N) : N :=
  match l with [] => acc | d :: t => val_acc base (acc * base + d) t end.
Fixpoint lval (base : N) (l : list N) : N :=
  match l with [] => 0 | d :: t => d + base * lval base t end.

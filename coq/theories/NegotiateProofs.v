From VpnModel Require Import Base Conn.
From Coq Require Import ZifyBool ZifyNat ZifyN Permutation.

Definition ids (l : list (N * N)) : list N := map fst l.

Lemma find_algo_in : forall a l s, find_algo a l = Some s -> In (a, s) l.
Proof.
  induction l as [|[a' s'] t IH]; intros s H; simpl in H; [discriminate|].
  destruct (a =? a') eqn:E; [inversion H; subst; apply N.eqb_eq in E; subst; left; reflexivity|right; apply IH; exact H].
Qed.

Lemma find_algo_nodup : forall a s l, NoDup (ids l) -> In (a, s) l -> find_algo a l = Some s.
Proof.
  induction l as [|[a' s'] t IH]; intros Hn Hin; [destruct Hin|].
  simpl in Hn. inversion Hn as [|? ? Hnot Hn']; subst. simpl. destruct Hin as [Hin|Hin].
  - inversion Hin; subst. rewrite N.eqb_refl. reflexivity.
  - destruct (a =? a') eqn:E; [|apply IH; assumption].
    apply N.eqb_eq in E. subst. exfalso. apply Hnot. unfold ids. apply in_map_iff. exists (a', s). split; [reflexivity|exact Hin].
Qed.

Lemma find_algo_none : forall a l, find_algo a l = None -> ~ In a (ids l).
Proof.
  induction l as [|[a' s'] t IH]; intros H Hin; [destruct Hin|]. simpl in H.
  destruct (a =? a') eqn:E; [discriminate|]. destruct Hin as [Hin|Hin]; [simpl in Hin; subst; rewrite N.eqb_refl in E; discriminate|].
  exact (IH H Hin).
Qed.

Definition minsp (s1 s2 : N) : N := if s1 <? s2 then s1 else s2.

(* the candidate set: common ciphers with the slower side's speed *)
Lemma candidates_spec : forall own peer, NoDup (ids own) -> NoDup (ids peer) ->
  forall a s, In (a, s) (candidates own peer) <-> exists s1 s2, In (a, s1) own /\ In (a, s2) peer /\ s = minsp s1 s2.
Proof.
  induction own as [|[a1 s1] t IH]; intros peer Ho Hp a s.
  - simpl. split; [intros []|intros (x & y & [] & _)].
  - simpl in Ho. inversion Ho as [|? ? Hnot Ho']; subst. cbn [candidates].
    destruct (find_algo a1 peer) as [s2|] eqn:Ef.
    + split.
      * intros [H|H].
        -- inversion H; subst. exists s1, s2. split; [left; reflexivity|]. split; [apply find_algo_in; exact Ef|reflexivity].
        -- apply (IH peer Ho' Hp) in H. destruct H as (x & y & H1 & H2 & H3). exists x, y. split; [right; exact H1|split; assumption].
      * intros (x & y & [H1|H1] & H2 & H3).
        -- inversion H1; subst. left. rewrite (find_algo_nodup a y peer Hp H2) in Ef. inversion Ef. reflexivity.
        -- right. apply (IH peer Ho' Hp). exists x, y. repeat split; assumption.
    + split.
      * intros H. apply (IH peer Ho' Hp) in H. destruct H as (x & y & H1 & H2 & H3). exists x, y. split; [right; exact H1|split; assumption].
      * intros (x & y & [H1|H1] & H2 & H3).
        -- inversion H1; subst. exfalso. apply (find_algo_none a peer Ef). unfold ids. apply in_map_iff. exists (a, y). split; [reflexivity|exact H2].
        -- apply (IH peer Ho' Hp). exists x, y. repeat split; assumption.
Qed.

Lemma minsp_comm : forall a b, minsp a b = minsp b a.
Proof. intros. unfold minsp. destruct (a <? b) eqn:E1; destruct (b <? a) eqn:E2; lia. Qed.

Lemma candidates_sym : forall own peer, NoDup (ids own) -> NoDup (ids peer) ->
  forall x, In x (candidates own peer) <-> In x (candidates peer own).
Proof.
  intros own peer Ho Hp [a s]. rewrite (candidates_spec own peer Ho Hp), (candidates_spec peer own Hp Ho).
  split; intros (x & y & H1 & H2 & H3); exists y, x; (split; [exact H2|split; [exact H1|rewrite minsp_comm; exact H3]]).
Qed.

Lemma candidates_ids_nodup : forall own peer, NoDup (ids own) -> NoDup (ids (candidates own peer)).
Proof.
  induction own as [|[a1 s1] t IH]; intros peer Ho; [constructor|].
  simpl in Ho. inversion Ho as [|? ? Hnot Ho']; subst. cbn [candidates].
  assert (Hsub : forall a, In a (ids (candidates t peer)) -> In a (ids t)).
  { clear. induction t as [|[a s] t IH]; intros x H; [exact H|]. cbn [candidates] in H.
    destruct (find_algo a peer); [destruct H as [H|H]; [left; exact H|right; apply IH; exact H]|right; apply IH; exact H]. }
  destruct (find_algo a1 peer); [|apply IH; exact Ho'].
  simpl. constructor; [intros H; apply Hnot; apply Hsub; exact H|apply IH; exact Ho'].
Qed.

(* best_of returns an element to which nothing is preferable *)
Lemma best_of_spec : forall l acc,
  In (best_of acc l) (acc :: l) /\ forall y, In y (acc :: l) -> better (best_of acc l) y = false.
Proof.
  induction l as [|x t IH]; intros acc; cbn [best_of].
  - split; [left; reflexivity|]. intros y [Hy|[]]. subst. unfold better. rewrite N.ltb_irrefl, N.eqb_refl, N.ltb_irrefl. reflexivity.
  - destruct (better acc x) eqn:E.
    + destruct (IH x) as [I1 I2]. split; [right; exact I1|].
      intros y [Hy|Hy]; [|apply I2; exact Hy]. subst y.
      (* acc is not better than the best, since x is better than acc and best is at least x *)
      specialize (I2 x (or_introl eq_refl)). unfold better in *. 
      destruct (best_of x t) as [bi bs]. destruct x as [xi xs]. destruct acc as [ai as_]. cbn [fst snd] in *. lia.
    + destruct (IH acc) as [I1 I2]. split; [destruct I1 as [I1|I1]; [left; exact I1|right; right; exact I1]|].
      intros y [Hy|[Hy|Hy]]; [apply I2; left; exact Hy| |apply I2; right; exact Hy]. subst y.
      specialize (I2 acc (or_introl eq_refl)). unfold better in *.
      destruct (best_of acc t) as [bi bs]. destruct x as [xi xs]. destruct acc as [ai as_]. cbn [fst snd] in *. lia.
Qed.

(* among entries with pairwise different ids the preferred one is unique *)
Lemma best_unique : forall (m m' : N * N) (S S' : list (N * N)),
  NoDup (ids S) -> (forall x, In x S <-> In x S') ->
  In m S -> (forall y, In y S -> better m y = false) ->
  In m' S' -> (forall y, In y S' -> better m' y = false) -> m = m'.
Proof.
  intros m m' S S' Hn Heq Hm Hbm Hm' Hbm'.
  apply Heq in Hm'. pose proof (Hbm m' Hm') as B1.
  assert (Hm2 : In m S') by (apply Heq; exact Hm). pose proof (Hbm' m Hm2) as B2.
  unfold better in *. destruct m as [a s]. destruct m' as [a' s']. cbn [fst snd] in *.
  assert (s = s') by lia. subst s'. assert (a = a') by lia. subst. reflexivity.
Qed.

(* C06-T1 *)
Theorem plain_iff : forall own peer, select_algorithm own peer = Ok None <-> (a_plain own = true /\ a_plain peer = true).
Proof.
  intros own peer. unfold select_algorithm. destruct (a_plain own && a_plain peer) eqn:E.
  - apply andb_true_iff in E. tauto.
  - split.
    + destruct (candidates (a_list own) (a_list peer)); discriminate.
    + intros [H1 H2]. rewrite H1, H2 in E. discriminate.
Qed.

(* C06-T2: clean failure iff not both plain and no common cipher *)
Theorem fail_iff : forall own peer, NoDup (ids (a_list own)) -> NoDup (ids (a_list peer)) ->
  ((exists c, select_algorithm own peer = Err c) <->
   (a_plain own && a_plain peer = false /\ forall a, ~ (In a (ids (a_list own)) /\ In a (ids (a_list peer))))).
Proof.
  intros own peer Ho Hp. unfold select_algorithm. destruct (a_plain own && a_plain peer) eqn:E.
  - split; [intros [c H]; discriminate|intros [H _]; discriminate].
  - destruct (candidates (a_list own) (a_list peer)) as [|[a s] t] eqn:Ec.
    + split; [|intros _; eexists; reflexivity]. intros _. split; [reflexivity|].
      intros a [H1 H2]. unfold ids in H1, H2. apply in_map_iff in H1. apply in_map_iff in H2.
      destruct H1 as ([a1 s1] & E1 & H1). destruct H2 as ([a2 s2] & E2 & H2). simpl in E1, E2. subst.
      assert (In (a, minsp s1 s2) (candidates (a_list own) (a_list peer))) by (apply candidates_spec; try assumption; exists s1, s2; auto).
      rewrite Ec in H. destruct H.
    + split; [intros [c H]; discriminate|]. intros [_ H]. exfalso.
      assert (Hin : In (a, s) (candidates (a_list own) (a_list peer))) by (rewrite Ec; left; reflexivity).
      apply candidates_spec in Hin; try assumption. destruct Hin as (s1 & s2 & H1 & H2 & _).
      apply (H a). split; unfold ids; apply in_map_iff; [exists (a, s1)|exists (a, s2)]; split; auto.
Qed.

(* C06-T3: otherwise a common cipher whose slower side is fastest *)
Theorem best_minspeed : forall own peer a s, NoDup (ids (a_list own)) -> NoDup (ids (a_list peer)) ->
  select_algorithm own peer = Ok (Some (a, s)) ->
  (exists s1 s2, In (a, s1) (a_list own) /\ In (a, s2) (a_list peer) /\ s = minsp s1 s2) /\
  (forall a' s1 s2, In (a', s1) (a_list own) -> In (a', s2) (a_list peer) -> minsp s1 s2 <= s).
Proof.
  intros own peer a s Ho Hp H. unfold select_algorithm in H.
  destruct (a_plain own && a_plain peer); [discriminate|].
  destruct (candidates (a_list own) (a_list peer)) as [|c t] eqn:Ec; [discriminate|]. inversion H as [Hb].
  destruct (best_of_spec t c) as [B1 B2]. rewrite Hb in B1, B2. rewrite <- Ec in B1, B2. split.
  - apply candidates_spec in B1; assumption.
  - intros a' s1 s2 H1 H2.
    assert (Hin : In (a', minsp s1 s2) (candidates (a_list own) (a_list peer))) by (apply candidates_spec; try assumption; exists s1, s2; auto).
    specialize (B2 _ Hin). unfold better in B2. cbn [fst snd] in B2. lia.
Qed.

(* C06-T4: both ends select the same cipher at the same speed, whatever the order of the lists *)
Theorem select_symmetric : forall own peer, NoDup (ids (a_list own)) -> NoDup (ids (a_list peer)) ->
  select_algorithm own peer = select_algorithm peer own \/
  (exists c c', select_algorithm own peer = Err c /\ select_algorithm peer own = Err c').
Proof.
  intros own peer Ho Hp. unfold select_algorithm. rewrite (andb_comm (a_plain peer)).
  destruct (a_plain own && a_plain peer); [left; reflexivity|].
  pose proof (candidates_sym (a_list own) (a_list peer) Ho Hp) as Hs.
  destruct (candidates (a_list own) (a_list peer)) as [|c t] eqn:E1; destruct (candidates (a_list peer) (a_list own)) as [|c' t'] eqn:E2.
  - left. reflexivity.
  - exfalso. apply (proj2 (Hs c')). left. reflexivity.
  - exfalso. apply (proj1 (Hs c)). left. reflexivity.
  - left. f_equal. f_equal.
    destruct (best_of_spec t c) as [B1 B2]. destruct (best_of_spec t' c') as [B1' B2'].
    apply (best_unique _ _ (c :: t) (c' :: t')); try assumption.
    rewrite <- E1. apply candidates_ids_nodup. exact Ho.
Qed.

Theorem select_order_independent : forall own own' peer peer',
  NoDup (ids (a_list own)) -> NoDup (ids (a_list peer)) ->
  Permutation (a_list own) (a_list own') -> Permutation (a_list peer) (a_list peer') ->
  a_plain own = a_plain own' -> a_plain peer = a_plain peer' ->
  select_algorithm own peer = select_algorithm own' peer' \/
  (exists c c', select_algorithm own peer = Err c /\ select_algorithm own' peer' = Err c').
Proof.
  intros own own' peer peer' Ho Hp Po Pp Eo Ep.
  assert (Ho' : NoDup (ids (a_list own'))) by (unfold ids; eapply Permutation_NoDup; [apply Permutation_map; exact Po|exact Ho]).
  assert (Hp' : NoDup (ids (a_list peer'))) by (unfold ids; eapply Permutation_NoDup; [apply Permutation_map; exact Pp|exact Hp]).
  unfold select_algorithm. rewrite <- Eo, <- Ep.
  destruct (a_plain own && a_plain peer); [left; reflexivity|].
  assert (Hs : forall x, In x (candidates (a_list own) (a_list peer)) <-> In x (candidates (a_list own') (a_list peer'))).
  { intros [a s]. rewrite (candidates_spec _ _ Ho Hp), (candidates_spec _ _ Ho' Hp').
    split; intros (x & y & H1 & H2 & H3); exists x, y; (split; [|split; [|exact H3]]).
    - eapply Permutation_in; [exact Po|exact H1].
    - eapply Permutation_in; [exact Pp|exact H2].
    - eapply Permutation_in; [apply Permutation_sym; exact Po|exact H1].
    - eapply Permutation_in; [apply Permutation_sym; exact Pp|exact H2]. }
  destruct (candidates (a_list own) (a_list peer)) as [|c t] eqn:E1; destruct (candidates (a_list own') (a_list peer')) as [|c' t'] eqn:E2.
  - left. reflexivity.
  - exfalso. apply (proj2 (Hs c')). left. reflexivity.
  - exfalso. apply (proj1 (Hs c)). left. reflexivity.
  - left. f_equal. f_equal.
    destruct (best_of_spec t c) as [B1 B2]. destruct (best_of_spec t' c') as [B1' B2'].
    apply (best_unique _ _ (c :: t) (c' :: t')); try assumption.
    rewrite <- E1. apply candidates_ids_nodup. exact Ho.
Qed.

(* A system of nodes with a harness-owned network: every datagram ever sent is kept (with source node
   and destination address) and can be delivered, duplicated, altered, re-addressed or never delivered;
   a global clock; interface frames.  Shared by the node-level correspondence driver (op `node`) and
   by the node-level theorems. *)
From VpnModel Require Import Base Core Conn PeerCrypto PcSys Table Node.

Inductive sop :=
| SNew (i : N) (c : ncfg)
| STime (t : Z)
| SConnect (i : N) (j : N)
| SReconnect (i : N) (j : N)
| SHousekeep (i : N)
| SDeliver (k : nat)
| SInject (k : nat) (dst src : N)
| SFlip (k : nat) (dst src : N) (pos : nat) (bit : N)
| STrunc (k : nat) (dst src : N) (len : nat)
| SRaw (dst src : N) (b : bytes)
| SLast (dst src : N) (init : bool) (n : nat)
| SDrop (k : nat)
| SAll
| SIface (i : N) (frame : bytes)
| SPopWrites (i : N)
| SDump (i : N)
| SGet (k : nat)
| SLoop (me to from : N)
| SNewNat (i : N) (c : ncfg)
| SDropFrom (i : N)        (* lose everything in flight that node i sent (i = 0: everything) *)
| SAlias (i p : N)         (* node i sits behind a port-forwarding router with public address p *)
| SMute (i : N) (on : bool)    (* from now on everything node i sends is lost (on) / gets through again (off) *)
| SSetClaims (i : N) (cl : list (bytes * N))
| SClose (i : N).          (* node i shuts down: the last thing it does is to broadcast CLOSE to its peers (end of GenericCloud::run) *)   (* node i's own claims change at run time (re-configuration / restart with other claims) *)

Record sys := {
  s_nodes : list (N * node);
  s_now : Z;
  s_sent : list (N * N * wire);          (* source node, destination address, datagram *)
  s_queue : list nat;                    (* indices not yet delivered, FIFO *)
  s_writes : list (N * list bytes);      (* interface writes not yet popped, per node *)
  s_nat : list (N * list (N * Z));       (* nodes behind an address-filtering NAT (MockSocket): peer -> mapping expiry *)
  s_alias : list (N * N);                (* node -> public address of a port-forwarding router without hair-pinning *)
  s_muted : list N                       (* nodes whose datagrams are currently lost on the way out *)
}.

Definition sys0 : sys := {| s_nodes := []; s_now := 1; s_sent := []; s_queue := []; s_writes := []; s_nat := []; s_alias := []; s_muted := [] |}.

Inductive sout :=
| SONone
| SOEmit (l : list (N * wire))           (* datagrams emitted by the step: (dst, datagram), sorted by dst *)
| SOAll (l : list (list (N * wire)))
| SOWrites (l : list bytes)
| SOGet
| SONat
| SODump (n : node)
| SOMissing.

(* stable insertion sort by destination *)
Fixpoint insert_by_dst (x : N * wire) (l : list (N * wire)) : list (N * wire) :=
  match l with
  | [] => [x]
  | y :: t => if fst x <? fst y then x :: l else y :: insert_by_dst x t
  end.
Definition sort_by_dst (l : list (N * wire)) : list (N * wire) := fold_left (fun acc x => insert_by_dst x acc) l [].

Definition sends_of (fx : list effect) : list (N * wire) :=
  flat_map (fun e => match e with XSend d w => [(d, w)] | XWrite _ => [] end) fx.
Definition writes_of (fx : list effect) : list bytes :=
  flat_map (fun e => match e with XWrite f => [f] | XSend _ _ => [] end) fx.

Definition add_writes (ws : list (N * list bytes)) (i : N) (l : list bytes) : list (N * list bytes) :=
  aset ws i (match aget ws i with Some old => old ++ l | None => l end).

(* run one event on node i and record what it emitted *)
(* apply a node function, put what it emits on the wire *)
Definition run_fn (s : sys) (i : N) (f : node -> node * list effect) : sys * list (N * wire) :=
  match aget (s_nodes s) i with
  | None => (s, [])
  | Some n =>
      let '(n', fx) := f n in
      let em := sort_by_dst (sends_of fx) in
      let base := length (s_sent s) in
      ({| s_nodes := aset (s_nodes s) i n'; s_now := s_now s;
          s_sent := s_sent s ++ map (fun x => (i, fst x, snd x)) em;
          s_queue := s_queue s ++ (if existsb (N.eqb i) (s_muted s) then [] else seq base (length em));
          s_writes := add_writes (s_writes s) i (writes_of fx);
          s_nat := match aget (s_nat s) i with
                   | Some m => aset (s_nat s) i (fold_left (fun acc x => aset acc (fst x) (s_now s + 300)%Z) em m)
                   | None => s_nat s
                   end; s_alias := s_alias s; s_muted := s_muted s |}, em)
  end.

Definition run_event (salts : list (N * N)) (s : sys) (i : N) (e : event) : sys * list (N * wire) :=
  run_fn s i (fun n => step salts (s_now s) n e).

(* the node with other own claims; everything else, including connections, stays *)
Definition with_claims (n : node) (cl : list (bytes * N)) : node :=
  let c := n_cfg n in
  {| n_cfg := {| c_num := c_num c; c_addr := c_addr c; c_peer_timeout := c_peer_timeout c; c_keepalive := c_keepalive c;
                 c_switch_timeout := c_switch_timeout c; c_learning := c_learning c; c_broadcast := c_broadcast c; c_tap := c_tap c;
                 c_claims := cl; c_key := c_key c; c_trusted := c_trusted c; c_algos := c_algos c; c_advertise := c_advertise c; c_hkfault := c_hkfault c |};
     n_peers := n_peers n; n_pending := n_pending n; n_own := n_own n; n_table := n_table n;
     n_next_peers := n_next_peers n; n_next_own_reset := n_next_own_reset n; n_reconnect := n_reconnect n;
     n_dropped := n_dropped n; n_invalid := n_invalid n; n_objs := n_objs n |}.

Definition has_node (s : sys) (i : N) : bool := ahas (s_nodes s) i.

(* MockSocket::put_inbound behind NAT: only senders we sent to within the last 300 s get through *)
Definition nat_admits (s : sys) (dst src : N) : bool :=
  match aget (s_nat s) dst with
  | None => true
  | Some m => match aget m src with Some exp => (s_now s <=? exp)%Z | None => false end
  end.

(* port forwarding without hair-pinning: a node with a public address P is seen as P by everybody, datagrams
   addressed to P reach it, except its own (dropped by the router); its private address is unreachable *)
Definition seen_as (s : sys) (node : N) : N := match aget (s_alias s) node with Some p => p | None => node end.
Definition owner_of (s : sys) (addr : N) : option N :=
  match find (fun e => snd e =? addr) (s_alias s) with Some e => Some (fst e) | None => None end.
(* where a datagram of node `from` addressed to `dst` ends up: Some (receiving node, source address it sees) *)
Definition route (s : sys) (from dst : N) : option (N * N) :=
  match owner_of s dst with
  | Some j => if j =? from then None else Some (j, seen_as s from)
  | None =>
      (* the private address of a node behind such a router is not reachable from outside *)
      match aget (s_alias s) dst with
      | Some _ => None
      | None => Some (dst, seen_as s from)
      end
  end.

Definition deliver_to (salts : list (N * N)) (s : sys) (dst src : N) (w : wire) : sys * sout :=
  if has_node s dst then
    if nat_admits s dst src then let '(s', em) := run_event salts s dst (ENet src w) in (s', SOEmit em) else (s, SONat)
  else (s, SOMissing).

Definition unqueue (s : sys) (k : nat) : sys :=
  {| s_nodes := s_nodes s; s_now := s_now s; s_sent := s_sent s; s_queue := filter (fun x => negb (Nat.eqb x k)) (s_queue s); s_writes := s_writes s; s_nat := s_nat s; s_alias := s_alias s; s_muted := s_muted s |}.

Fixpoint deliver_all (fuel : nat) (salts : list (N * N)) (s : sys) (acc : list (list (N * wire))) : sys * list (list (N * wire)) :=
  match fuel with
  | O => (s, acc)
  | S f =>
      match s_queue s with
      | [] => (s, acc)
      | k :: q =>
          let s1 := {| s_nodes := s_nodes s; s_now := s_now s; s_sent := s_sent s; s_queue := q; s_writes := s_writes s; s_nat := s_nat s; s_alias := s_alias s; s_muted := s_muted s |} in
          match nth_error (s_sent s1) k with
          | None => deliver_all f salts s1 acc
          | Some (src0, dst0, w) =>
              match route s1 src0 dst0 with
              | None => deliver_all f salts s1 (acc ++ [[]])
              | Some (dst, src) =>
                  if has_node s1 dst then
                    if nat_admits s1 dst src then
                      let '(s2, em) := run_event salts s1 dst (ENet src w) in deliver_all f salts s2 (acc ++ [em])
                    else deliver_all f salts s1 (acc ++ [[(0, WBadInit)]])      (* marker: filtered by NAT *)
                  else deliver_all f salts s1 (acc ++ [[]])
              end
          end
      end
  end.

Definition sstep (salts : list (N * N)) (s : sys) (o : sop) : sys * sout :=
  match o with
  | SNew i c =>
      ({| s_nodes := aset (s_nodes s) i (node_new c (s_now s)); s_now := s_now s; s_sent := s_sent s; s_queue := s_queue s; s_writes := s_writes s; s_nat := s_nat s; s_alias := s_alias s; s_muted := s_muted s |}, SONone)
  | STime t => ({| s_nodes := s_nodes s; s_now := t; s_sent := s_sent s; s_queue := s_queue s; s_writes := s_writes s; s_nat := s_nat s; s_alias := s_alias s; s_muted := s_muted s |}, SONone)
  | SConnect i j => let '(s', em) := run_event salts s i (EConnect j) in (s', SOEmit em)
  | SReconnect i j => let '(s', _) := run_event salts s i (EAddReconnect [j]) in (s', SONone)
  | SHousekeep i => let '(s', em) := run_event salts s i EHousekeep in (s', SOEmit em)
  | SDeliver k =>
      match nth_error (s_sent s) k with
      | None => (s, SOMissing)
      | Some (src0, dst0, w) =>
          match route s src0 dst0 with
          | None => (unqueue s k, SOMissing)
          | Some (dst, src) => deliver_to salts (unqueue s k) dst src w
          end
      end
  | SInject k dst src =>
      match nth_error (s_sent s) k with None => (s, SOMissing) | Some (_, _, w) => deliver_to salts s dst src w end
  | SFlip k dst src pos bit =>
      match nth_error (s_sent s) k with
      | None => (s, SOMissing)
      | Some (_, _, w) => if (pos <? wire_len w)%nat then deliver_to salts s dst src (wire_flip w pos bit) else (s, SOMissing)
      end
  | STrunc k dst src len =>
      match nth_error (s_sent s) k with None => (s, SOMissing) | Some (_, _, w) => deliver_to salts s dst src (wire_trunc w len) end
  | SRaw dst src b => deliver_to salts s dst src (wire_of_bytes b)
  | SLast dst src init n =>
      match nth_error (filter (fun e => (fst (fst e) =? src) && (snd (fst e) =? dst) &&
                                         (match snd e with WEmpty => false | w => Bool.eqb (is_init_wire w) init end))
                              (rev (s_sent s))) n with
      | None => (s, SOMissing)
      | Some (_, _, w) => deliver_to salts s dst src w
      end
  | SDrop k => (unqueue s k, SONone)
  | SAll => let '(s', l) := deliver_all 401 salts s [] in (s', SOAll l)
  | SIface i f => let '(s', em) := run_event salts s i (EIface f) in (s', SOEmit em)
  | SPopWrites i =>
      ({| s_nodes := s_nodes s; s_now := s_now s; s_sent := s_sent s; s_queue := s_queue s; s_writes := aset (s_writes s) i []; s_nat := s_nat s; s_alias := s_alias s; s_muted := s_muted s |},
       SOWrites (match aget (s_writes s) i with Some l => l | None => [] end))
  | SDump i => match aget (s_nodes s) i with Some n => (s, SODump n) | None => (s, SOMissing) end
  | SLoop me to from =>
      match find (fun e => (fst (fst e) =? me) && (snd (fst e) =? to) && is_init_wire (snd e)) (rev (s_sent s)) with
      | None => (s, SOMissing)
      | Some (_, _, w) => deliver_to salts s me from w
      end
  | SGet k => (s, match nth_error (s_sent s) k with Some _ => SOGet | None => SOMissing end)
  | SNewNat i c =>
      ({| s_nodes := aset (s_nodes s) i (node_new c (s_now s)); s_now := s_now s; s_sent := s_sent s; s_queue := s_queue s;
          s_writes := s_writes s; s_nat := aset (s_nat s) i []; s_alias := s_alias s; s_muted := s_muted s |}, SONone)
  | SClose i => let '(s', em) := run_fn s i (fun n => broadcast n MESSAGE_TYPE_CLOSE []) in (s', SOEmit em)
  | SSetClaims i cl =>
      match aget (s_nodes s) i with
      | None => (s, SOMissing)
      | Some n => ({| s_nodes := aset (s_nodes s) i (with_claims n cl); s_now := s_now s; s_sent := s_sent s; s_queue := s_queue s;
                      s_writes := s_writes s; s_nat := s_nat s; s_alias := s_alias s; s_muted := s_muted s |}, SONone)
      end
  | SMute i on =>
      ({| s_nodes := s_nodes s; s_now := s_now s; s_sent := s_sent s; s_queue := s_queue s; s_writes := s_writes s;
          s_nat := s_nat s; s_alias := s_alias s;
          s_muted := if on then i :: s_muted s else filter (fun x => negb (x =? i)) (s_muted s) |}, SONone)
  | SAlias i p =>
      ({| s_nodes := s_nodes s; s_now := s_now s; s_sent := s_sent s; s_queue := s_queue s; s_writes := s_writes s;
          s_nat := s_nat s; s_alias := aset (s_alias s) i p; s_muted := s_muted s |}, SONone)
  | SDropFrom i =>
      ({| s_nodes := s_nodes s; s_now := s_now s; s_sent := s_sent s;
          s_queue := filter (fun k => match nth_error (s_sent s) k with
                                      | Some (src, _, _) => negb ((i =? 0) || (src =? i))
                                      | None => false end) (s_queue s);
          s_writes := s_writes s; s_nat := s_nat s; s_alias := s_alias s; s_muted := s_muted s |}, SONone)
  end.

(* the salts oracle is given per operation *)
Fixpoint srun (s : sys) (ops : list (sop * list (N * N))) : sys * list sout :=
  match ops with
  | [] => (s, [])
  | (o, salts) :: t => let '(s', r) := sstep salts s o in let '(s'', rs) := srun s' t in (s'', r :: rs)
  end.

From VpnModel Require Import Base Nonce Replay Core CoreProofs Conn PeerCrypto Rotation2.
From Coq Require Import ZifyBool ZifyNat ZifyN.
Ltac Zify.zify_post_hook ::= Z.div_mod_to_equations.

(* ---------------------------------------------------------------------------------------- *)
(* symbolic ECDH is symmetric *)

Lemma be_enc_len : forall n v, length (be_enc n v) = n.
Proof. induction n as [|n IH]; intros v; [reflexivity|]. cbn [be_enc]. rewrite app_length, IH. simpl. lia. Qed.

Lemma be_val_acc_app1 : forall l acc x, be_val_acc acc (l ++ [x]) = be_val_acc acc l * 256 + x.
Proof. induction l as [|b t IH]; intros acc x; simpl; [reflexivity|]. apply IH. Qed.

Lemma be_val_be_enc : forall n v, be_val (be_enc n v) = v mod 256 ^ N.of_nat n.
Proof.
  induction n as [|n IH]; intros v.
  - cbn. rewrite N.mod_1_r. reflexivity.
  - cbn [be_enc]. unfold be_val in *. rewrite be_val_acc_app1, IH.
    rewrite Nat2N.inj_succ, N.pow_succ_r'. set (P := 256 ^ N.of_nat n).
    assert (0 < P) by (unfold P; assert (256 ^ N.of_nat n <> 0) by (apply N.pow_nonzero; lia); lia).
    rewrite N.mod_mul_r by lia. rewrite N.add_comm, (N.mul_comm 256). reflexivity.
Qed.

Lemma dh_name_sym : forall a b, dh_name a b = dh_name b a.
Proof. intros. unfold dh_name. rewrite N.min_comm, N.max_comm. reflexivity. Qed.

Lemma ecdh_pub_ok : forall p q, ecdh p (ecdh_pub q) = Some (dh_name (p mod 2 ^ 256) (q mod 2 ^ 256)).
Proof.
  intros p q. unfold ecdh, ecdh_pub. rewrite be_enc_len. cbn [Nat.eqb]. rewrite be_val_be_enc.
  change (256 ^ N.of_nat 32) with (2 ^ 256). reflexivity.
Qed.

Lemma ecdh_sym : forall p q, ecdh p (ecdh_pub q) = ecdh q (ecdh_pub p).
Proof. intros. rewrite !ecdh_pub_ok, dh_name_sym. reflexivity. Qed.

(* ---------------------------------------------------------------------------------------- *)
(* core facts *)

Definition key_at (e : rend) (i : N) : N := s_key (get_slot (e_core e) i).

Lemma wf_rotate : forall c k id use r, wf_core c -> wf_core (core_rotate c k id use r).
Proof.
  intros c k id use r [Hl Hc]. unfold wf_core, core_rotate, set_slot. cbn [slots current]. rewrite length_set_nth.
  split; [exact Hl|]. destruct use; [lia|exact Hc].
Qed.

Lemma key_rotate_same : forall c k id use r, wf_core c -> s_key (get_slot (core_rotate c k id use r) (id mod 4)) = k.
Proof. intros c k id use r H. destruct (rotate_fresh_window c k id use r H) as (H1 & _ & _). rewrite H1. reflexivity. Qed.

Lemma key_rotate_other : forall c k id use r i, wf_core c -> i <> id mod 4 ->
  s_key (get_slot (core_rotate c k id use r) i) = s_key (get_slot c i).
Proof. intros c k id use r i H Hi. destruct (rotate_fresh_window c k id use r H) as (_ & H2 & _). rewrite H2 by exact Hi. reflexivity. Qed.

Lemma cur_rotate : forall c k id use r, wf_core c -> current (core_rotate c k id use r) = if use then id mod 4 else current c.
Proof. intros c k id use r H. destruct (rotate_fresh_window c k id use r H) as (_ & _ & H3). exact H3. Qed.

Lemma wf_tick : forall c, wf_core c -> wf_core (core_tick c).
Proof. intros c [Hl Hc]. unfold wf_core, core_tick. cbn [slots current]. rewrite map_length. split; assumption. Qed.

Lemma key_tick : forall c i, s_key (get_slot (core_tick c) i) = s_key (get_slot c i).
Proof. intros c i. rewrite tick_all_slots. destruct (N.to_nat i <? length (slots c))%nat; reflexivity. Qed.

Lemma wf_encrypt : forall c p, wf_core c -> wf_core (fst (core_encrypt c p)).
Proof.
  intros c p [Hl Hc]. unfold core_encrypt. cbn [fst]. unfold wf_core, set_slot. cbn [slots current]. rewrite length_set_nth. split; assumption.
Qed.

Lemma key_encrypt : forall c p i, wf_core c -> s_key (get_slot (fst (core_encrypt c p)) i) = s_key (get_slot c i).
Proof.
  intros c p i [Hl Hc]. unfold core_encrypt. cbn [fst]. unfold get_slot at 1. unfold set_slot. cbn [slots].
  destruct (N.eq_dec i (current c)) as [->|Hne].
  - rewrite nth_set_nth_same by lia. reflexivity.
  - rewrite nth_set_nth_other by lia. reflexivity.
Qed.

Lemma cur_encrypt : forall c p, current (fst (core_encrypt c p)) = current c.
Proof. intros. reflexivity. Qed.

(* ---------------------------------------------------------------------------------------- *)
(* the shape of a reachable state *)

Definition cur_of (j : N) : N := if j <? 2 then 0 else j mod 4.

Definition Mn (S : rend) (n p : N) : rot_msg :=
  {| rm_id := n; rm_propose := ecdh_pub p; rm_confirm := option_map fst (r_confirmed (e_rot S)) |}.

Record Shape (n : N) (seen : bool) (S R : rend) (toS toR : list rot_msg) : Prop := mkShape {
  sh_n : 1 <= n;
  sh_wfS : wf_core (e_core S);
  sh_wfR : wf_core (e_core R);
  sh_smid : r_mid (e_rot S) = n;
  sh_rmid : r_mid (e_rot R) = n - 1;
  sh_sprop : exists p, r_proposed (e_rot S) = Some p /\ (forall m, In m toR -> rm_id m = n -> m = Mn S n p);
  sh_sconf : (n = 1 /\ r_confirmed (e_rot S) = None) \/ (2 <= n /\ exists ck, r_confirmed (e_rot S) = Some (ck, n));
  sh_toR : forall m, In m toR -> rm_id m <= n;
  sh_toS : forall m, In m toS -> rm_id m <= n;
  sh_scur : current (e_core S) = cur_of (n - 1);
  sh_rcur : current (e_core R) = if seen then cur_of n else cur_of (n - 2);
  sh_key1 : key_at S (current (e_core S)) = key_at R (current (e_core S));
  sh_key2 : key_at R (current (e_core R)) = key_at S (current (e_core R));
  sh_unseen : seen = false ->
    (n = 1 /\ r_proposed (e_rot R) = None /\ r_pending (e_rot R) = None) \/
    (2 <= n /\ exists p' ck, r_proposed (e_rot R) = Some p' /\ r_confirmed (e_rot S) = Some (ck, n) /\
                 ecdh p' ck = Some (key_at S (n mod 4)));
  sh_rconf : forall p', r_proposed (e_rot R) = Some p' ->
    (n = 2 /\ r_confirmed (e_rot R) = None) \/ (3 <= n /\ exists ck, r_confirmed (e_rot R) = Some (ck, n - 1));
  sh_seen : seen = true ->
    r_proposed (e_rot R) = None /\
    exists k q, r_pending (e_rot R) = Some (k, q) /\ forall p, r_proposed (e_rot S) = Some p -> ecdh p q = Some k
}.

Definition Inv (s : rsys) : Prop :=
  exists n seen, Shape n seen (ea s) (eb s) (to_a s) (to_b s) \/ Shape n seen (eb s) (ea s) (to_b s) (to_a s).

(* arithmetic of slot indices *)
Lemma cur_of_lt4 : forall j, cur_of j < 4.
Proof. intros j. unfold cur_of. destruct (j <? 2); lia. Qed.
Lemma slot_distinct1 : forall n, 1 <= n -> cur_of (n - 1) <> n mod 4.
Proof. intros n H. unfold cur_of. destruct (n - 1 <? 2) eqn:E; lia. Qed.
Lemma slot_distinct2 : forall n, 1 <= n -> cur_of n <> (n + 1) mod 4.
Proof. intros n H. unfold cur_of. destruct (n <? 2) eqn:E; lia. Qed.
Lemma slot_distinct3 : forall n, 1 <= n -> cur_of (n - 1) <> (n + 1) mod 4.
Proof. intros n H. unfold cur_of. destruct (n - 1 <? 2) eqn:E; lia. Qed.

(* ---------------------------------------------------------------------------------------- *)
(* steps of the sender role S *)

(* delivering anything to S is ignored *)
Lemma S_deliver_ignored : forall n seen S R toS toR m, Shape n seen S R toS toR -> In m toS -> rend_deliver S m = Ok S.
Proof.
  intros n seen S R toS toR m H Hin. unfold rend_deliver, rot_process.
  assert ((rm_id m <=? r_mid (e_rot S)) = true) as -> by (rewrite (sh_smid _ _ _ _ _ _ H); pose proof (sh_toS _ _ _ _ _ _ H m Hin); lia).
  cbn [apply_rotated]. destruct S as [r c f]. reflexivity.
Qed.

(* a cycle of S only sets the timeout flag or re-sends exactly M_n *)
Lemma S_cycle : forall n seen S R toS toR, Shape n seen S R toS toR ->
  Shape n seen (fst (rend_cycle S)) R toS (app_opt toR (snd (rend_cycle S))).
Proof.
  intros n seen S R toS toR H. destruct (sh_sprop _ _ _ _ _ _ H) as (p & Hp & Hm).
  unfold rend_cycle, rot_cycle. rewrite Hp.
  destruct (r_timeout (e_rot S)) eqn:Et; cbn [fst snd apply_rotated app_opt].
  - (* resend *)
    assert (Hmsg : match r_confirmed (e_rot S) with
                   | Some (ck, mid) => {| rm_id := mid; rm_propose := ecdh_pub p; rm_confirm := Some ck |}
                   | None => {| rm_id := 1; rm_propose := ecdh_pub p; rm_confirm := None |}
                   end = Mn S n p).
    { unfold Mn. destruct (sh_sconf _ _ _ _ _ _ H) as [[H1 H2]|[H1 (ck & H2)]]; rewrite H2; cbn [option_map fst]; [subst n|]; reflexivity. }
    rewrite Hmsg.
    assert (HS : {| e_rot := e_rot S; e_core := e_core S; e_fresh := e_fresh S |} = S) by (destruct S; reflexivity).
    rewrite HS. destruct H. constructor; try assumption.
    + exists p. split; [exact Hp|]. intros m Hin Hid. apply in_app_or in Hin. destruct Hin as [Hin|[Hin|[]]]; [apply Hm; assumption|symmetry; exact Hin].
    + intros m Hin. apply in_app_or in Hin. destruct Hin as [Hin|[Hin|[]]]; [apply sh_toR0; exact Hin|]. subst m. cbn [Mn rm_id]. lia.
  - destruct H. constructor; unfold key_at in *; cbn [e_rot e_core r_mid r_proposed r_confirmed r_pending] in *; try assumption.
    + exists p. split; [first [exact Hp|reflexivity]|]. intros m Hin Hid. rewrite (Hm m Hin Hid). reflexivity.
    + intros Hs. destruct (sh_seen0 Hs) as (A & k & q & B & C). split; [exact A|]. exists k, q. split; [exact B|].
      intros p0 E. apply C. rewrite Hp. exact E.
Qed.

(* ---------------------------------------------------------------------------------------- *)
(* steps of the receiver role R *)

Ltac shape_trivial :=
  try assumption;
  try (let Hf := fresh in intros Hf; discriminate Hf);
  try (let Hf := fresh in let x := fresh in intros x Hf; discriminate Hf).

Lemma R_deliver : forall n seen S R toS toR m, Shape n seen S R toS toR -> In m toR ->
  exists R' seen', rend_deliver R m = Ok R' /\ Shape n seen' S R' toS toR /\ (rm_id m = n -> seen' = true).
Proof.
  intros n seen S R toS toR m H Hin.
  pose proof (sh_toR _ _ _ _ _ _ H m Hin) as Hle.
  destruct (N.eq_dec (rm_id m) n) as [Hid|Hid].
  2: { (* stale: ignored *)
    exists R, seen. split; [|split; [exact H|intros Hc; contradiction]]. unfold rend_deliver, rot_process.
    assert ((rm_id m <=? r_mid (e_rot R)) = true) as -> by (rewrite (sh_rmid _ _ _ _ _ _ H); lia).
    cbn [apply_rotated]. destruct R; reflexivity. }
  destruct (sh_sprop _ _ _ _ _ _ H) as (p & Hp & Hm). specialize (Hm m Hin Hid). subst m.
  unfold rend_deliver, rot_process. cbn [Mn rm_id rm_propose rm_confirm].
  assert ((n <=? r_mid (e_rot R)) = false) as -> by (rewrite (sh_rmid _ _ _ _ _ _ H); pose proof (sh_n _ _ _ _ _ _ H); lia).
  rewrite ecdh_pub_ok.
  set (fr := e_fresh R). set (k := dh_name (fr mod 2 ^ 256) (p mod 2 ^ 256)).
  assert (Hk : forall p0, r_proposed (e_rot S) = Some p0 -> ecdh p0 (ecdh_pub fr) = Some k).
  { intros p0 E. rewrite Hp in E. inversion E; subst p0. rewrite ecdh_pub_ok. unfold k. rewrite dh_name_sym. reflexivity. }
  destruct seen.
  - (* already seen: the pending entry is refreshed, nothing else *)
    destruct (sh_seen _ _ _ _ _ _ H eq_refl) as (Hrp & k0 & q0 & Hpend & _).
    rewrite Hrp.
    assert (Hnk : match option_map fst (r_confirmed (e_rot S)) with Some _ => @None N | None => None end = None) by (destruct (option_map fst (r_confirmed (e_rot S))); reflexivity).
    refine (ex_intro _ _ (ex_intro _ true (conj _ (conj _ (fun _ => eq_refl))))).
    + destruct (option_map fst (r_confirmed (e_rot S))); reflexivity.
    + destruct H. constructor; unfold key_at in *; cbn [e_rot e_core r_mid r_proposed r_confirmed r_pending apply_rotated] in *; shape_trivial.
      * intros _. split; [reflexivity|]. exists k, (ecdh_pub fr). split; [reflexivity|exact Hk].
  - destruct (sh_unseen _ _ _ _ _ _ H eq_refl) as [(Hn1 & Hrp & Hrpend)|(Hn2 & p' & ck & Hrp & Hsc & Hdh)].
    + (* n = 1: no confirmation yet *)
      subst n. destruct (sh_sconf _ _ _ _ _ _ H) as [[_ Hc]|[Hc _]]; [|lia]. rewrite Hc, Hrp. cbn [option_map].
      refine (ex_intro _ _ (ex_intro _ true (conj eq_refl (conj _ (fun _ => eq_refl))))).
      destruct H. constructor; unfold key_at in *; cbn [e_rot e_core r_mid r_proposed r_confirmed r_pending apply_rotated] in *; shape_trivial.
      * intros _. split; [reflexivity|]. exists k, (ecdh_pub fr). split; [reflexivity|exact Hk].
    + (* n >= 2: the confirmation yields the key S installed under id n; R starts sealing with it *)
      rewrite Hsc, Hrp. cbn [option_map fst]. rewrite Hdh.
      refine (ex_intro _ _ (ex_intro _ true (conj eq_refl (conj _ (fun _ => eq_refl))))).
      pose proof (slot_distinct1 n (sh_n _ _ _ _ _ _ H)) as Hd1.
      destruct H. constructor; unfold key_at in *; cbn [e_rot e_core r_mid r_proposed r_confirmed r_pending apply_rotated rk_key rk_id rk_use] in *; shape_trivial.
      * apply wf_rotate. exact sh_wfR0.
      * rewrite cur_rotate by exact sh_wfR0. unfold cur_of. assert ((n <? 2) = false) as -> by lia. reflexivity.
      * rewrite key_rotate_other by (try exact sh_wfR0; rewrite sh_scur0; exact Hd1). exact sh_key3.
      * rewrite cur_rotate by exact sh_wfR0. rewrite key_rotate_same by exact sh_wfR0. reflexivity.
      * intros _. split; [reflexivity|]. exists k, (ecdh_pub fr). split; [reflexivity|exact Hk].
Qed.

Lemma R_cycle : forall n seen S R toS toR, Shape n seen S R toS toR ->
  Shape n seen S (fst (rend_cycle R)) (app_opt toS (snd (rend_cycle R))) toR \/
  Shape (n + 1) false (fst (rend_cycle R)) S toR (app_opt toS (snd (rend_cycle R))).
Proof.
  intros n seen S R toS toR H. unfold rend_cycle, rot_cycle. destruct seen.
  - (* seen: R confirms, proposes anew and becomes the sender of message n+1 *)
    right. destruct (sh_seen _ _ _ _ _ _ H eq_refl) as (Hrp & k & q & Hpend & Hk).
    rewrite Hrp, Hpend. cbn [fst snd apply_rotated app_opt rk_key rk_id rk_use].
    destruct (sh_sprop _ _ _ _ _ _ H) as (p & Hp & Hm).
    pose proof (sh_n _ _ _ _ _ _ H) as Hn. pose proof (sh_rmid _ _ _ _ _ _ H) as Hrm.
    pose proof (slot_distinct2 n Hn) as Hd2. pose proof (slot_distinct3 n Hn) as Hd3.
    assert (Hmid : r_mid (e_rot R) + 2 = n + 1) by lia. rewrite Hmid.
    destruct H. constructor; unfold key_at in *; cbn [e_rot e_core r_mid r_proposed r_confirmed r_pending] in *; shape_trivial.
    + lia.
    + apply wf_rotate. exact sh_wfR0.
    + reflexivity.
    + lia.
    + exists (e_fresh R). split; [reflexivity|]. intros m Hin Hid. apply in_app_or in Hin. destruct Hin as [Hin|[Hin|[]]].
      * pose proof (sh_toS0 m Hin). lia.
      * subst m. unfold Mn. cbn [e_rot r_confirmed option_map fst]. reflexivity.
    + right. split; [lia|]. eexists. reflexivity.
    + intros m Hin. apply in_app_or in Hin. destruct Hin as [Hin|[Hin|[]]]; [pose proof (sh_toS0 m Hin); lia|subst m; cbn [rm_id]; lia].
    + intros m Hin. pose proof (sh_toR0 m Hin). lia.
    + rewrite cur_rotate by exact sh_wfR0. rewrite sh_rcur0. replace (n + 1 - 1) with n by lia. reflexivity.
    + rewrite sh_scur0. replace (n + 1 - 2) with (n - 1) by lia. reflexivity.
    + rewrite cur_rotate by exact sh_wfR0. rewrite key_rotate_other by (try exact sh_wfR0; rewrite sh_rcur0; exact Hd2). exact sh_key4.
    + rewrite key_rotate_other by (try exact sh_wfR0; rewrite sh_scur0; exact Hd3). exact sh_key3.
    + intros _. right. split; [lia|]. exists p, q. split; [exact Hp|]. split; [reflexivity|].
      rewrite key_rotate_same by exact sh_wfR0. apply Hk. exact Hp.
    + intros p' Hp'. rewrite Hp in Hp'. inversion Hp'; subst p'. replace (n + 1 - 1) with n by lia.
      destruct sh_sconf0 as [[Hn1 Hc]|[Hn2 (ck & Hc)]]; [left; split; [lia|exact Hc]|right; split; [lia|exists ck; exact Hc]].
  - left. destruct (sh_unseen _ _ _ _ _ _ H eq_refl) as [(Hn1 & Hrp & Hrpend)|(Hn2 & p' & ck & Hrp & Hsc & Hdh)].
    + (* still waiting for message 1: nothing happens *)
      rewrite Hrp, Hrpend. cbn [fst snd apply_rotated app_opt].
      assert (HR : {| e_rot := e_rot R; e_core := e_core R; e_fresh := e_fresh R |} = R) by (destruct R; reflexivity).
      rewrite HR. exact H.
    + rewrite Hrp. destruct (r_timeout (e_rot R)) eqn:Et; cbn [fst snd apply_rotated app_opt].
      * (* re-send of R's own last message: id n-1, ignored by S *)
        assert (HR : {| e_rot := e_rot R; e_core := e_core R; e_fresh := e_fresh R |} = R) by (destruct R; reflexivity).
        rewrite HR. pose proof (sh_rconf _ _ _ _ _ _ H p' Hrp) as Hrc.
        destruct H. constructor; try assumption.
        intros m Hin. apply in_app_or in Hin. destruct Hin as [Hin|[Hin|[]]]; [apply sh_toS0; exact Hin|]. subst m.
        destruct Hrc as [[Hn Hc]|[Hn (ck' & Hc)]]; rewrite Hc; cbn [rm_id]; lia.
      * pose proof (sh_rconf _ _ _ _ _ _ H p' Hrp) as Hrc.
        destruct H. constructor; unfold key_at in *; cbn [e_rot e_core r_mid r_proposed r_confirmed r_pending] in *; shape_trivial.
        -- intros _. right. split; [exact Hn2|]. exists p', ck. split; [reflexivity|split; [exact Hsc|exact Hdh]].
        -- intros p0 _. exact Hrc.
Qed.

(* ---------------------------------------------------------------------------------------- *)
(* steps that touch a core without touching keys: window ticks and payload sealing *)

Lemma shape_core_S : forall n seen S R toS toR c,
  Shape n seen S R toS toR -> wf_core c -> current c = current (e_core S) ->
  (forall i, s_key (get_slot c i) = s_key (get_slot (e_core S) i)) ->
  Shape n seen (with_core S c) R toS toR.
Proof.
  intros n seen S R toS toR c H Hwf Hcur Hkey.
  destruct (sh_sprop _ _ _ _ _ _ H) as (p & Hp & Hm).
  destruct H. constructor; unfold key_at, with_core in *; cbn [e_rot e_core] in *; shape_trivial.
  - rewrite Hcur. exact sh_scur0.
  - rewrite Hcur, Hkey. exact sh_key3.
  - rewrite Hkey. exact sh_key4.
  - intros Hs. destruct (sh_unseen0 Hs) as [U|(Hn2 & p' & ck & A & B & C)]; [left; exact U|right].
    split; [exact Hn2|]. exists p', ck. rewrite Hkey. repeat split; assumption.
Qed.

Lemma shape_core_R : forall n seen S R toS toR c,
  Shape n seen S R toS toR -> wf_core c -> current c = current (e_core R) ->
  (forall i, s_key (get_slot c i) = s_key (get_slot (e_core R) i)) ->
  Shape n seen S (with_core R c) toS toR.
Proof.
  intros n seen S R toS toR c H Hwf Hcur Hkey.
  destruct H. constructor; unfold key_at, with_core in *; cbn [e_rot e_core] in *; shape_trivial.
  - rewrite Hcur. exact sh_rcur0.
  - rewrite Hkey. exact sh_key3.
  - rewrite Hcur, Hkey. exact sh_key4.
Qed.

Lemma inv_init : forall k0 da db fa fb ha, Inv (rsys_init k0 da db fa fb ha).
Proof.
  intros. exists 1, false. left. unfold rsys_init, rot_new. cbn [ea eb to_a to_b app_opt app].
  constructor; unfold key_at; cbn [e_rot e_core r_mid r_proposed r_confirmed r_pending current core_new slots].
  - lia.
  - split; reflexivity.
  - split; reflexivity.
  - reflexivity.
  - reflexivity.
  - exists fa. split; [reflexivity|]. intros m [Hm|[]] _. subst m. reflexivity.
  - left. split; reflexivity.
  - intros m [Hm|[]]. subst m. cbn [rm_id]. lia.
  - intros m [].
  - reflexivity.
  - reflexivity.
  - reflexivity.
  - reflexivity.
  - intros _. left. repeat split; reflexivity.
  - intros p' Hf. discriminate.
  - intros Hf. discriminate.
Qed.

(* C07-T1 core: every step preserves the invariant and never hits the agree_ephemeral unwrap *)
Theorem inv_step : forall s o, Inv s -> snd (rsys_step s o) = false /\ Inv (fst (rsys_step s o)).
Proof.
  intros s o (n & seen & [H|H]).
  - (* A is the sender of the newest message *)
    destruct o as [| | k | k | | | p | p]; cbn [rsys_step].
    + destruct (rend_cycle (ea s)) as [e m] eqn:E. cbn [fst snd]. split; [reflexivity|].
      pose proof (S_cycle _ _ _ _ _ _ H) as H'. rewrite E in H'. cbn [fst snd] in H'.
      exists n, seen. left. exact H'.
    + destruct (rend_cycle (eb s)) as [e m] eqn:E. cbn [fst snd]. split; [reflexivity|].
      pose proof (R_cycle _ _ _ _ _ _ H) as H'. rewrite E in H'. cbn [fst snd] in H'.
      destruct H' as [H'|H']; [exists n, seen; left; exact H'|exists (n + 1), false; right; exact H'].
    + destruct (nth_error (to_a s) k) as [m|] eqn:En; [|split; [reflexivity|exists n, seen; left; exact H]].
      rewrite (S_deliver_ignored _ _ _ _ _ _ m H (nth_error_In _ _ En)). cbn [fst snd]. split; [reflexivity|].
      exists n, seen. left. destruct s; exact H.
    + destruct (nth_error (to_b s) k) as [m|] eqn:En; [|split; [reflexivity|exists n, seen; left; exact H]].
      destruct (R_deliver _ _ _ _ _ _ m H (nth_error_In _ _ En)) as (R' & seen' & E & H' & _).
      rewrite E. cbn [fst snd]. split; [reflexivity|]. exists n, seen'. left. exact H'.
    + cbn [fst snd]. split; [reflexivity|]. exists n, seen. left.
      apply shape_core_S; [exact H|apply wf_tick; exact (sh_wfS _ _ _ _ _ _ H)|reflexivity|intros i; apply key_tick].
    + cbn [fst snd]. split; [reflexivity|]. exists n, seen. left.
      apply shape_core_R; [exact H|apply wf_tick; exact (sh_wfR _ _ _ _ _ _ H)|reflexivity|intros i; apply key_tick].
    + cbn [fst snd]. split; [reflexivity|]. exists n, seen. left.
      apply shape_core_S; [exact H|apply wf_encrypt; exact (sh_wfS _ _ _ _ _ _ H)|reflexivity|intros i; apply key_encrypt; exact (sh_wfS _ _ _ _ _ _ H)].
    + cbn [fst snd]. split; [reflexivity|]. exists n, seen. left.
      apply shape_core_R; [exact H|apply wf_encrypt; exact (sh_wfR _ _ _ _ _ _ H)|reflexivity|intros i; apply key_encrypt; exact (sh_wfR _ _ _ _ _ _ H)].
  - (* B is the sender of the newest message *)
    destruct o as [| | k | k | | | p | p]; cbn [rsys_step].
    + destruct (rend_cycle (ea s)) as [e m] eqn:E. cbn [fst snd]. split; [reflexivity|].
      pose proof (R_cycle _ _ _ _ _ _ H) as H'. rewrite E in H'. cbn [fst snd] in H'.
      destruct H' as [H'|H']; [exists n, seen; right; exact H'|exists (n + 1), false; left; exact H'].
    + destruct (rend_cycle (eb s)) as [e m] eqn:E. cbn [fst snd]. split; [reflexivity|].
      pose proof (S_cycle _ _ _ _ _ _ H) as H'. rewrite E in H'. cbn [fst snd] in H'.
      exists n, seen. right. exact H'.
    + destruct (nth_error (to_a s) k) as [m|] eqn:En; [|split; [reflexivity|exists n, seen; right; exact H]].
      destruct (R_deliver _ _ _ _ _ _ m H (nth_error_In _ _ En)) as (R' & seen' & E & H' & _).
      rewrite E. cbn [fst snd]. split; [reflexivity|]. exists n, seen'. right. exact H'.
    + destruct (nth_error (to_b s) k) as [m|] eqn:En; [|split; [reflexivity|exists n, seen; right; exact H]].
      rewrite (S_deliver_ignored _ _ _ _ _ _ m H (nth_error_In _ _ En)). cbn [fst snd]. split; [reflexivity|].
      exists n, seen. right. destruct s; exact H.
    + cbn [fst snd]. split; [reflexivity|]. exists n, seen. right.
      apply shape_core_R; [exact H|apply wf_tick; exact (sh_wfR _ _ _ _ _ _ H)|reflexivity|intros i; apply key_tick].
    + cbn [fst snd]. split; [reflexivity|]. exists n, seen. right.
      apply shape_core_S; [exact H|apply wf_tick; exact (sh_wfS _ _ _ _ _ _ H)|reflexivity|intros i; apply key_tick].
    + cbn [fst snd]. split; [reflexivity|]. exists n, seen. right.
      apply shape_core_R; [exact H|apply wf_encrypt; exact (sh_wfR _ _ _ _ _ _ H)|reflexivity|intros i; apply key_encrypt; exact (sh_wfR _ _ _ _ _ _ H)].
    + cbn [fst snd]. split; [reflexivity|]. exists n, seen. right.
      apply shape_core_S; [exact H|apply wf_encrypt; exact (sh_wfS _ _ _ _ _ _ H)|reflexivity|intros i; apply key_encrypt; exact (sh_wfS _ _ _ _ _ _ H)].
Qed.

Theorem inv_run : forall ops s, Inv s -> snd (rsys_run s ops) = false /\ Inv (fst (rsys_run s ops)).
Proof.
  induction ops as [|o t IH]; intros s H; [split; [reflexivity|exact H]|].
  cbn [rsys_run]. destruct (inv_step s o H) as [Hp Hi]. destruct (rsys_step s o) as [s' p]. cbn [fst snd] in *. subst p. apply IH. exact Hi.
Qed.

(* what the invariant says about sealing keys *)
Lemma inv_keys : forall s, Inv s ->
  send_key (ea s) = held_key (eb s) (ea s) /\ send_key (eb s) = held_key (ea s) (eb s) /\
  wf_core (e_core (ea s)) /\ wf_core (e_core (eb s)).
Proof.
  intros s (n & seen & [H|H]); destruct H; unfold send_key, held_key, key_at in *;
    (split; [assumption|split; [assumption|split; assumption]]).
Qed.

(* C07-T1: at every instant of every schedule the key an end currently seals with is held by its
   peer under that key id with identical key material *)
Theorem send_key_held : forall k0 da db fa fb ha ops,
  let s := fst (rsys_run (rsys_init k0 da db fa fb ha) ops) in
  snd (rsys_run (rsys_init k0 da db fa fb ha) ops) = false /\
  send_key (ea s) = held_key (eb s) (ea s) /\ send_key (eb s) = held_key (ea s) (eb s).
Proof.
  intros. destruct (inv_run ops _ (inv_init k0 da db fa fb ha)) as [Hp Hi]. split; [exact Hp|].
  destruct (inv_keys _ Hi) as (H1 & H2 & _). split; assumption.
Qed.

(* C07-T2: re-delivery of any rotation message never changes the key an end seals with once it was
   processed: the second delivery leaves `current` where it is *)
Theorem duplicate_harmless_S : forall n seen S R toS toR m, Shape n seen S R toS toR -> In m toS ->
  rend_deliver S m = Ok S.
Proof. exact S_deliver_ignored. Qed.

(* C07-T3/T4: progress.  Once the receiver of message n has processed it, its next cycle emits message
   n+1 (installing the new key for receiving), and as soon as that message arrives the other end
   seals with key id n+1: one full key change per direction every two cycles while messages get
   through.  A lost message is re-sent in the sender's second following cycle (S_cycle) and the
   invariant holds meanwhile (inv_step). *)
Theorem progress : forall n S R toS toR, Shape n true S R toS toR ->
  exists m R' S', rend_cycle R = (R', Some m) /\ rm_id m = n + 1 /\
    rend_deliver S m = Ok S' /\ Shape (n + 1) true R' S' toR (toS ++ [m]) /\
    current (e_core S') = (n + 1) mod 4.
Proof.
  intros n S R toS toR H.
  destruct (sh_seen _ _ _ _ _ _ H eq_refl) as (Hrp & k & q & Hpend & Hk).
  pose proof (R_cycle _ _ _ _ _ _ H) as HC.
  assert (Hcyc : exists R' m, rend_cycle R = (R', Some m) /\ rm_id m = n + 1).
  { unfold rend_cycle, rot_cycle. rewrite Hrp, Hpend. eexists. eexists. split; [reflexivity|].
    cbn [rm_id]. rewrite (sh_rmid _ _ _ _ _ _ H). pose proof (sh_n _ _ _ _ _ _ H). lia. }
  destruct Hcyc as (R' & m & Hc & Hid). rewrite Hc in HC. cbn [fst snd app_opt] in HC.
  destruct HC as [HC|HC].
  - (* impossible: the shape with n unchanged would need r_mid R' = n - 1 *)
    exfalso. pose proof (sh_rmid _ _ _ _ _ _ HC) as E1. pose proof (sh_toS _ _ _ _ _ _ HC m ltac:(apply in_or_app; right; left; reflexivity)). lia.
  - assert (Hin : In m (toS ++ [m])) by (apply in_or_app; right; left; reflexivity).
    destruct (R_deliver _ _ _ _ _ _ m HC Hin) as (S' & seen' & E & H' & Hs).
    specialize (Hs Hid). subst seen'.
    exists m, R', S'. split; [exact Hc|]. split; [exact Hid|]. split; [exact E|]. split; [exact H'|].
    rewrite (sh_rcur _ _ _ _ _ _ H'). unfold cur_of. pose proof (sh_n _ _ _ _ _ _ H).
    assert ((n + 1 <? 2) = false) as -> by lia. reflexivity.
Qed.

(* C07-T5: PeerCrypto::every_second runs a rotation cycle exactly when its counter reaches 120 *)
Lemma pc_seal_keeps : forall p ty b, pc_rot (fst (pc_seal p ty b)) = pc_rot p /\ pc_counter (fst (pc_seal p ty b)) = pc_counter p.
Proof.
  intros p ty b. unfold pc_seal. destruct (pc_plain p); [split; reflexivity|].
  destruct (pc_core p) as [c|]; [|split; reflexivity]. destruct (core_encrypt c (ty :: b)) as [c' d]. split; reflexivity.
Qed.

Theorem counter_cycles : forall p rs,
  pc_init p = None -> pc_rot p = Some rs ->
  let p' := fst (fst (pc_every_second p)) in
  (pc_counter p + 1 <? ROTATE_INTERVAL = true ->
     pc_rot p' = Some rs /\ pc_counter p' = pc_counter p + 1 /\ snd (pc_every_second p) = None) /\
  (pc_counter p + 1 <? ROTATE_INTERVAL = false ->
     pc_counter p' = 0 /\ pc_rot p' = Some (fst (fst (fst (rot_cycle rs (pc_fresh p)))))).
Proof.
  intros p rs Hi Hr. unfold pc_every_second. rewrite Hi, Hr. cbn zeta.
  destruct (pc_counter p + 1 <? ROTATE_INTERVAL) eqn:E.
  - split; [intros _|intros Hf; discriminate]. cbn [fst snd pc_set pc_rot pc_counter]. repeat split; reflexivity.
  - split; [intros Hf; discriminate|intros _].
    destruct (rot_cycle rs (pc_fresh p)) as [[[rs' rm] rk] fr] eqn:Ec. cbn [fst snd].
    destruct rk as [k|]; destruct (option_map core_tick (pc_core p)) as [c1|]; destruct rm as [m|];
      cbn [fst snd option_map pc_set pc_rot pc_counter];
      try (split; reflexivity);
      match goal with
      | |- context [pc_seal ?q ?t ?b] =>
          pose proof (pc_seal_keeps q t b) as [K1 K2]; destruct (pc_seal q t b) as [p3 [w|e|pn]]; cbn [fst snd] in *;
          rewrite K1, K2; split; reflexivity
      end.
Qed.

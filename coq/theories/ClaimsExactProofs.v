(* C12 at node level: whenever a node processes an announcement (node information) of a connected peer - in a NODE_INFO message or
   as the payload that completes a handshake - the claims attributed to that peer become exactly the announced ones, with a fresh
   expiry; other peers' live claims are untouched. *)
From VpnModel Require Import Base RangeMatch Table TableProofs Nonce Replay Core Conn PeerCrypto NodeInfo Interval Node NodeProofs TrustProofs SurviveProofs NextHopProofs.

Lemma connect_sock_table : forall salts n a, n_table (fst (connect_sock salts n a)) = n_table n.
Proof. intros. apply (connect_sock_peers salts n a). Qed.

Lemma connect_table : forall salts n addrs, n_table (fst (connect salts n addrs)) = n_table n.
Proof.
  intros salts n addrs. unfold connect. destruct (existsb _ addrs); [reflexivity|].
  assert (G : forall l st, n_table (fst (fold_left (fun (acc : node * list effect) (a : N) => let '(m, fx) := acc in let '(m', fx') := connect_sock salts m a in (m', fx ++ fx')) l st)) = n_table (fst st)).
  { induction l as [|a t IH]; intros [m fx]; [reflexivity|]. cbn [fold_left]. rewrite IH. cbn [fst].
    pose proof (connect_sock_table salts m a) as K. destruct (connect_sock salts m a) as [m' fx']. exact K. }
  apply (G addrs (n, [])).
Qed.

Lemma connect_to_peers_table : forall salts ps n, n_table (fst (connect_to_peers salts n ps)) = n_table n.
Proof.
  intros salts ps n. unfold connect_to_peers.
  assert (G : forall l st, n_table (fst (fold_left (fun (acc : node * list effect) (p : peer_info) =>
      let '(m, fx) := acc in
      if existsb (fun a => ahas (n_peers m) a) (map addr_of_bytes (pi_addrs p)) then (m, fx) else
      match pi_node p with
      | Some id =>
          if list_eqb id (node_id_bytes (c_num (n_cfg m))) then
            (upd m (n_peers m) (n_pending m) (fold_left (fun own a => if memN a own then own else own ++ [a]) (map addr_of_bytes (pi_addrs p)) (n_own m)) (n_table m), fx)
          else if existsb (fun e => list_eqb (p_node (snd e)) id) (n_peers m) then (m, fx)
          else let '(m', fx') := connect salts m (map addr_of_bytes (pi_addrs p)) in (m', fx ++ fx')
      | None => let '(m', fx') := connect salts m (map addr_of_bytes (pi_addrs p)) in (m', fx ++ fx')
      end) l st)) = n_table (fst st)).
  { induction l as [|p t IH]; intros [m fx]; [reflexivity|]. cbn [fold_left]. rewrite IH. cbn [fst].
    destruct (existsb _ (map addr_of_bytes (pi_addrs p))); [reflexivity|].
    pose proof (connect_table salts m (map addr_of_bytes (pi_addrs p))) as K.
    destruct (pi_node p) as [id|].
    - destruct (list_eqb id _); [reflexivity|]. destruct (existsb _ (n_peers m)); [reflexivity|]. destruct (connect salts m _) as [m' fx']. exact K.
    - destruct (connect salts m _) as [m' fx']. exact K. }
  apply (G ps (n, [])).
Qed.

Theorem announcement_sets_claims_exactly : forall salts now n addr pd info, (0 < now)%Z -> (0 <= claim_timeout (n_table n))%Z ->
  aget (n_peers n) addr = Some pd ->
  let t' := n_table (fst (update_peer_info salts now n addr (Some info))) in
  (forall r, (exists c, In c (claims t') /\ c_peer c = addr /\ crange c = r) <-> In r (ni_claims info)) /\
  (forall c, In c (claims t') -> c_peer c = addr -> c_timeout c = (now + claim_timeout (n_table n))%Z) /\
  (forall c, c_peer c <> addr -> (In c (claims t') <-> (In c (claims (n_table n)) /\ (now <= c_timeout c)%Z))).
Proof.
  intros salts now n addr pd info Hnow Hcto Ha. unfold update_peer_info. rewrite Ha. rewrite connect_to_peers_table. cbn [upd n_table].
  destruct (set_claims_exact (n_table n) now addr (ni_claims info) Hnow Hcto) as (H1 & H2 & H3 & _). split; [exact H1|split; [exact H2|exact H3]].
Qed.

Definition claims_exactly (t' t : table) (now : Z) (addr : N) (announced : list (bytes * N)) : Prop :=
  (forall r, (exists c, In c (claims t') /\ c_peer c = addr /\ crange c = r) <-> In r announced) /\
  (forall c, In c (claims t') -> c_peer c = addr -> c_timeout c = (now + claim_timeout t)%Z) /\
  (forall c, c_peer c <> addr -> (In c (claims t') <-> (In c (claims t) /\ (now <= c_timeout c)%Z))).

(* a NODE_INFO message of a connected peer *)
Theorem node_info_message_sets_claims_exactly : forall salts now n src pd body info reply, (0 < now)%Z -> (0 <= claim_timeout (n_table n))%Z ->
  aget (n_peers n) src = Some pd -> ni_decode body = Ok info ->
  claims_exactly (n_table (fst (handle_result salts now n src (MMessage MESSAGE_TYPE_NODE_INFO body) reply))) (n_table n) now src (ni_claims info).
Proof.
  intros salts now n src pd body info reply Hnow Hcto Ha Hd. cbn [handle_result].
  change (MESSAGE_TYPE_NODE_INFO =? MESSAGE_TYPE_DATA) with false. change (MESSAGE_TYPE_NODE_INFO =? MESSAGE_TYPE_NODE_INFO) with true. cbn iota.
  rewrite Hd. exact (announcement_sets_claims_exactly salts now n src pd info Hnow Hcto Ha).
Qed.

(* the node information that completes a handshake *)
Theorem handshake_payload_sets_claims_exactly : forall salts now n src pc info, (0 < now)%Z -> (0 <= claim_timeout (n_table n))%Z ->
  aget (n_pending n) src = Some pc ->
  claims_exactly (n_table (fst (add_new_peer salts now n src info))) (n_table n) now src (ni_claims info).
Proof.
  intros salts now n src pc info Hnow Hcto Hq. unfold add_new_peer. rewrite Hq.
  match goal with |- claims_exactly (n_table (fst (update_peer_info salts now ?n1 src (Some info)))) _ _ _ _ =>
    assert (Ha : exists pd, aget (n_peers n1) src = Some pd) by (eexists; cbn [upd n_peers]; apply aget_aset_same);
    destruct Ha as [pd Ha]; exact (announcement_sets_claims_exactly salts now n1 src pd info Hnow Hcto Ha) end.
Qed.

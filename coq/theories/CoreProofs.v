From VpnModel Require Import Base Nonce Replay Core.
From Coq Require Import ZifyBool ZifyNat ZifyN.

Lemma list_eqb_refl : forall l, list_eqb l l = true.
Proof. induction l as [|x l IH]; simpl; [reflexivity|]. rewrite N.eqb_refl, IH. reflexivity. Qed.

Lemma list_eqb_eq : forall a b, list_eqb a b = true <-> a = b.
Proof.
  induction a as [|x a IH]; destruct b as [|y b]; simpl; split; intros H; try reflexivity; try discriminate.
  - apply andb_true_iff in H. destruct H as [H1 H2]. apply N.eqb_eq in H1. apply IH in H2. subst. reflexivity.
  - inversion H; subst. rewrite N.eqb_refl. simpl. apply IH. reflexivity.
Qed.

(* ideal AEAD: only the genuine seal opens, and only under its own key and nonce *)
Lemma aead_open_iff : forall k n c p, aead_open k n c = Some p <-> c = Seal k n p.
Proof.
  intros k n c p. destruct c as [k' n' p'|]; simpl; split; intros H; try discriminate.
  - destruct (k =? k') eqn:Ek; simpl in H; [|discriminate].
    destruct (list_eqb n n') eqn:En; [|discriminate].
    apply N.eqb_eq in Ek. apply list_eqb_eq in En. inversion H. subst. reflexivity.
  - inversion H; subst. rewrite N.eqb_refl, list_eqb_refl. reflexivity.
Qed.

Lemma nth_set_nth_same : forall (A:Type) (l : list A) i x d, (i < length l)%nat -> nth i (set_nth i x l) d = x.
Proof.
  induction l as [|h t IH]; intros i x d Hi; simpl in Hi; [lia|].
  destruct i; simpl; [reflexivity|]. apply IH. lia.
Qed.

Lemma nth_set_nth_other : forall (A:Type) (l : list A) i j x d, i <> j -> nth j (set_nth i x l) d = nth j l d.
Proof.
  induction l as [|h t IH]; intros i j x d Hij; simpl; [destruct i; reflexivity|].
  destruct i; destruct j; simpl; try reflexivity; try lia. apply IH. lia.
Qed.

Lemma length_set_nth : forall (A:Type) (l : list A) i x, length (set_nth i x l) = length l.
Proof. induction l as [|h t IH]; intros i x; simpl; [destruct i; reflexivity|]. destruct i; simpl; [reflexivity|]. rewrite IH. reflexivity. Qed.

Definition wf_core (c : core) : Prop := length (slots c) = 4%nat /\ current c < 4.

(* decrypt of a well-formed datagram: Ok p exactly when the key id is in range, the slot's key and
   the reconstructed nonce are those of the seal, and the window admits the counter; the slot's
   window then moves by `deliver`, nothing else changes *)
Theorem decrypt_ok_iff : forall c keyid ctr7 x j p, wf_core c ->
  snd (core_decrypt c (DG keyid ctr7 x j)) = Ok p <->
  (keyid < 4 /\ x = Seal (s_key (get_slot c keyid)) (nonce_rebuild (half c) ctr7) p /\
   accepts (s_win (get_slot c keyid)) (be_val (nonce_rebuild (half c) ctr7)) = true).
Proof.
  intros c keyid ctr7 x j p Hwf. unfold core_decrypt.
  destruct (4 <=? keyid) eqn:Ek; cbn [snd].
  - split; [discriminate|]. intros (H & _). lia.
  - unfold accepts.
    destruct (be_val (nonce_rebuild (half c) ctr7) <? minn (s_win (get_slot c keyid))) eqn:Ew; cbn [snd negb].
    + split; [discriminate|]. intros (_ & _ & H). discriminate.
    + destruct (aead_open (s_key (get_slot c keyid)) (nonce_rebuild (half c) ctr7) x) as [p'|] eqn:Eo; cbn [snd].
      * apply aead_open_iff in Eo. split.
        -- intros H. inversion H; subst. repeat split; try reflexivity. lia.
        -- intros (_ & Hx & _). rewrite Eo in Hx. inversion Hx. reflexivity.
      * split; [discriminate|]. intros (_ & Hx & _).
        assert (aead_open (s_key (get_slot c keyid)) (nonce_rebuild (half c) ctr7) x = Some p) by (apply aead_open_iff; exact Hx).
        congruence.
Qed.

(* failures leave the core untouched *)
Theorem decrypt_fail_unchanged : forall c d, is_ok (snd (core_decrypt c d)) = false -> fst (core_decrypt c d) = c.
Proof.
  intros c d. destruct d as [keyid ctr7 x j|n]; unfold core_decrypt; [|reflexivity].
  destruct (4 <=? keyid); [reflexivity|].
  destruct (be_val (nonce_rebuild (half c) ctr7) <? minn (s_win (get_slot c keyid))); [reflexivity|].
  destruct (aead_open _ _ x); [discriminate|reflexivity].
Qed.

Theorem decrypt_never_panics : forall c d, is_panic (snd (core_decrypt c d)) = false.
Proof.
  intros c d. destruct d as [keyid ctr7 x j|n]; unfold core_decrypt; [|reflexivity].
  destruct (4 <=? keyid); [reflexivity|].
  destruct (be_val (nonce_rebuild (half c) ctr7) <? minn (s_win (get_slot c keyid))); [reflexivity|].
  destruct (aead_open _ _ x); reflexivity.
Qed.

(* success moves exactly the addressed slot's window by Replay.deliver *)
Theorem decrypt_ok_window : forall c keyid ctr7 x j p, wf_core c ->
  snd (core_decrypt c (DG keyid ctr7 x j)) = Ok p ->
  let c' := fst (core_decrypt c (DG keyid ctr7 x j)) in
  s_win (get_slot c' keyid) = snd (deliver (s_win (get_slot c keyid)) (be_val (nonce_rebuild (half c) ctr7))) /\
  (forall i, i <> keyid -> i < 4 -> get_slot c' i = get_slot c i) /\
  s_key (get_slot c' keyid) = s_key (get_slot c keyid) /\ s_send (get_slot c' keyid) = s_send (get_slot c keyid) /\
  current c' = current c /\ half c' = half c.
Proof.
  intros c keyid ctr7 x j p [Hl Hc] H. pose proof H as H0. apply decrypt_ok_iff in H0; [|split; assumption].
  destruct H0 as (Hk & Hx & Ha). revert H. unfold core_decrypt.
  assert ((4 <=? keyid) = false) as -> by lia.
  unfold accepts in Ha.
  destruct (be_val (nonce_rebuild (half c) ctr7) <? minn (s_win (get_slot c keyid))) eqn:Ew; [discriminate|].
  rewrite Hx.
  assert (Ho : aead_open (s_key (get_slot c keyid)) (nonce_rebuild (half c) ctr7)
                 (Seal (s_key (get_slot c keyid)) (nonce_rebuild (half c) ctr7) p) = Some p)
    by (apply aead_open_iff; reflexivity).
  rewrite Ho. cbn [fst snd]. intros _.
  unfold get_slot, set_slot. cbn [slots current half].
  assert (Hi : (N.to_nat keyid < length (slots c))%nat) by lia.
  split; [rewrite nth_set_nth_same by exact Hi; reflexivity|].
  split; [intros i Hne Hi4; apply nth_set_nth_other; lia|].
  split; [rewrite nth_set_nth_same by exact Hi; reflexivity|].
  split; [rewrite nth_set_nth_same by exact Hi; reflexivity|].
  split; reflexivity.
Qed.

(* every_second: one window tick on every slot, nothing else *)
Theorem tick_all_slots : forall c i,
  get_slot (core_tick c) i =
  (if (N.to_nat i <? length (slots c))%nat
   then {| s_key := s_key (get_slot c i); s_send := s_send (get_slot c i); s_win := tick (s_win (get_slot c i)) |}
   else get_slot c i).
Proof.
  intros c i. unfold core_tick, get_slot. cbn [slots].
  destruct (N.to_nat i <? length (slots c))%nat eqn:E.
  - apply Nat.ltb_lt in E.
    set (f := fun s => {| s_key := s_key s; s_send := s_send s; s_win := tick (s_win s) |}).
    set (d := {| s_key := 0; s_send := zeros 12; s_win := win0 |}).
    rewrite (nth_indep (map f (slots c)) d (f d)) by (rewrite map_length; exact E).
    rewrite map_nth. reflexivity.
  - apply Nat.ltb_ge in E. rewrite !nth_overflow; [reflexivity|exact E|rewrite map_length; exact E].
Qed.

(* rotate_key: the addressed slot gets a fresh window and counter, other slots untouched *)
Theorem rotate_fresh_window : forall c k id use r, wf_core c ->
  get_slot (core_rotate c k id use r) (id mod 4) = new_slot k (half c) r /\
  (forall i, i <> id mod 4 -> get_slot (core_rotate c k id use r) i = get_slot c i) /\
  current (core_rotate c k id use r) = (if use then id mod 4 else current c).
Proof.
  intros c k id use r [Hl Hc]. unfold core_rotate, get_slot, set_slot. cbn [slots current half].
  assert (Hi : (N.to_nat (id mod 4) < length (slots c))%nat) by lia.
  repeat split.
  - apply nth_set_nth_same. exact Hi.
  - intros i Hne. apply nth_set_nth_other. lia.
Qed.

(* C02-T1: what one end seals the other end opens, byte-identical, whenever the receiver holds the
   sender's current key under that key id, reconstructs the nonce that was used (opposite halves,
   counter within the 56 transmitted bits) and its window admits the counter *)
Theorem core_roundtrip : forall c1 c2 p, wf_core c1 -> wf_core c2 ->
  s_key (get_slot c2 (current c1)) = s_key (get_slot c1 (current c1)) ->
  let n' := nonce_increment (s_send (get_slot c1 (current c1))) in
  nonce_rebuild (half c2) (nonce_wire n') = n' ->
  accepts (s_win (get_slot c2 (current c1))) (be_val n') = true ->
  snd (core_decrypt c2 (snd (core_encrypt c1 p))) = Ok p.
Proof.
  intros c1 c2 p H1 H2 Hk n' Hn Ha. unfold core_encrypt. cbn [snd].
  apply decrypt_ok_iff; [exact H2|]. destruct H1 as [_ Hc]. split; [exact Hc|]. fold n'. rewrite Hn, Hk. split; [reflexivity|exact Ha].
Qed.

(* C02-T2 corollaries: reflected, foreign, altered and truncated datagrams never open *)
Corollary reflected_never_opens : forall c p, wf_core c ->
  nth_b 0%nat (nonce_increment (s_send (get_slot c (current c)))) = (if half c then 128 else 0) ->
  is_ok (snd (core_decrypt (fst (core_encrypt c p)) (snd (core_encrypt c p)))) = false.
Proof.
  intros c p Hwf Hb. destruct (snd (core_decrypt (fst (core_encrypt c p)) (snd (core_encrypt c p)))) as [q|e|s] eqn:E; try reflexivity.
  exfalso. unfold core_encrypt in E. cbn [fst snd] in E.
  apply decrypt_ok_iff in E.
  - destruct E as (_ & Hx & _). inversion Hx as [[Hk Hn]]. cbn [half set_slot] in Hn.
    set (n' := nonce_increment (s_send (get_slot c (current c)))) in *.
    assert (Hh : nth_b 0%nat (nonce_rebuild (half c) (nonce_wire n')) = (if half c then 0 else 128)) by (unfold nonce_rebuild; destruct (half c); reflexivity).
    rewrite <- Hn in Hh. rewrite Hh in Hb. destruct (half c); discriminate.
  - destruct Hwf as [Hl Hc]. split; [cbn [slots set_slot]; rewrite length_set_nth; exact Hl|exact Hc].
Qed.

Corollary foreign_key_never_opens : forall c keyid ctr7 k nn p j, wf_core c -> keyid < 4 ->
  k <> s_key (get_slot c keyid) -> is_ok (snd (core_decrypt c (DG keyid ctr7 (Seal k nn p) j))) = false.
Proof.
  intros c keyid ctr7 k nn p j Hwf Hk Hne.
  destruct (snd (core_decrypt c (DG keyid ctr7 (Seal k nn p) j))) as [q|e|s] eqn:E; try reflexivity.
  apply decrypt_ok_iff in E; [|exact Hwf]. destruct E as (_ & Hx & _). inversion Hx. congruence.
Qed.

Corollary altered_never_opens : forall c d pos bit, (8 <= pos)%nat ->
  is_ok (snd (core_decrypt c (dgram_flip d pos bit))) = false.
Proof.
  intros c d pos bit Hp. destruct d as [keyid ctr7 x j|len]; [|reflexivity].
  unfold dgram_flip. destruct pos as [|q]; [lia|]. assert (Nat.ltb q 7 = false) as -> by (apply Nat.ltb_ge; lia).
  unfold core_decrypt. destruct (4 <=? keyid); [reflexivity|].
  destruct (be_val (nonce_rebuild (half c) ctr7) <? minn (s_win (get_slot c keyid))); reflexivity.
Qed.

Corollary truncated_never_opens : forall c d len, (len < dgram_len d)%nat -> is_ok (snd (core_decrypt c (dgram_truncate d len))) = false.
Proof.
  intros c d len H. unfold dgram_truncate. assert (Nat.leb (dgram_len d) len = false) as -> by (apply Nat.leb_gt; exact H).
  destruct (Nat.ltb len 24); [reflexivity|]. destruct d as [keyid ctr7 x j|n]; [|reflexivity].
  unfold core_decrypt. destruct (4 <=? keyid); [reflexivity|].
  destruct (be_val (nonce_rebuild (half c) ctr7) <? minn (s_win (get_slot c keyid))); reflexivity.
Qed.

From VpnModel Require Import Base Interval.
From Coq Require Import ZifyBool ZifyNat ZifyN.
Ltac Zify.zify_post_hook ::= Z.div_mod_to_equations.

Lemma minl_in : forall d l, l <> [] -> In (minl d l) l /\ forall x, In x l -> minl d l <= x.
Proof.
  intros d l. induction l as [|x t IH]; intros H; [congruence|].
  destruct t as [|y t'].
  - simpl. split; [left; reflexivity|]. intros z [Hz|[]]. lia.
  - assert (Hne : y :: t' <> []) by discriminate. destruct (IH Hne) as [I1 I2].
    change (minl d (x :: y :: t')) with (N.min x (minl d (y :: t'))).
    split.
    + destruct (N.min_spec x (minl d (y :: t'))) as [[_ ->]|[_ ->]]; [left; reflexivity|right; exact I1].
    + intros z [Hz|Hz]; [lia|]. specialize (I2 z Hz). lia.
Qed.

(* C15-T1: for every own setting (any update_freq a u16 can hold) and every non-empty set of
   advertised timeouts, the scheduled delay is at most one second or strictly below the smallest
   advertised timeout; with no peers it is min(update_freq, 90). *)
Theorem interval_safe : forall upd advertised, advertised <> [] ->
  let i := announce_interval upd advertised in
  i <= 1 \/ (forall x, In x advertised -> i < x).
Proof.
  intros upd advertised Hne i. destruct (minl_in 300 advertised Hne) as [Hin Hmin].
  subst i. unfold announce_interval, sat_sub.
  set (m := minl 300 advertised) in *.
  destruct (m / 2 <? 60) eqn:E.
  - left. lia.
  - destruct (N.le_gt_cases (m / 2 - 60) 1) as [Hle|Hgt]; [left; lia|].
    right. intros x Hx. specialize (Hmin x Hx). lia.
Qed.

Theorem interval_no_peers : forall upd, announce_interval upd [] = N.min upd 90.
Proof. intros. reflexivity. Qed.

(* own keep-alive default: never 0, and below the own timeout whenever that is >= 2 *)
Theorem keepalive_default : forall pt, 1 <= get_keepalive pt None /\ (2 <= pt -> get_keepalive pt None < pt).
Proof. intros pt. unfold get_keepalive, sat_sub. destruct (pt / 2 <? 60) eqn:E; lia. Qed.

(* C15-T4: reconnect back-off: interval always within [1, 3600], next attempt at most an hour away,
   the entry is rescheduled (never dropped) *)
Definition backoff_ok (e : backoff) : Prop := 1 <= btimeout e <= 3600 /\ tries e <= 10.

Theorem backoff_step_ok : forall now e, backoff_ok e ->
  backoff_ok (backoff_step now e) /\
  ((bnext e <= now)%Z -> (now < bnext (backoff_step now e) <= now + 3600)%Z).
Proof.
  intros now e [[H1 H2] H3]. unfold backoff_step.
  destruct (now <? bnext e)%Z eqn:E.
  - split; [split; [split|]; assumption|]. lia.
  - unfold u16. destruct (10 <? tries e + 1) eqn:E2.
    + assert (Hm : (btimeout e * 2) mod 65536 = btimeout e * 2) by (apply N.mod_small; lia). rewrite Hm.
      destruct (3600 <? btimeout e * 2) eqn:E3; cbn [tries btimeout bnext]; unfold backoff_ok; cbn [tries btimeout bnext]; split; try lia.
    + destruct (3600 <? btimeout e) eqn:E3; cbn [tries btimeout bnext]; unfold backoff_ok; cbn [tries btimeout bnext]; split; try lia.
Qed.

Theorem backoff0_ok : forall now, backoff_ok (backoff0 now).
Proof. intros. unfold backoff_ok, backoff0. simpl. lia. Qed.

Fixpoint backoff_run (e : backoff) (times : list Z) : backoff :=
  match times with [] => e | t :: r => backoff_run (backoff_step t e) r end.

Theorem backoff_run_ok : forall times e, backoff_ok e -> backoff_ok (backoff_run e times).
Proof. induction times as [|t r IH]; intros e H; [exact H|]. apply IH. apply backoff_step_ok. exact H. Qed.

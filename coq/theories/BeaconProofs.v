From VpnModel Require Import Base Base62 Base62Proofs Sha512 Beacon.
From Coq Require Import ZifyBool ZifyNat ZifyN.
Ltac Zify.zify_post_hook ::= Z.div_mod_to_equations.

Lemma be_enc_length : forall n v, length (be_enc n v) = n.
Proof. induction n as [|n IH]; intros v; [reflexivity|]. cbn [be_enc]. rewrite app_length, IH. simpl. lia. Qed.

Lemma sha512_length : forall m, length (sha512 m) = 64%nat.
Proof. intros m. unfold sha512. cbn [flat_map]. rewrite !app_length, !be_enc_length. reflexivity. Qed.

Definition xorl (a k : bytes) : bytes := map (fun p => N.lxor (fst p) (snd p)) (combine a k).

Lemma xorl_length : forall a k, (length a <= length k)%nat -> length (xorl a k) = length a.
Proof. intros a k H. unfold xorl. rewrite map_length, combine_length. lia. Qed.

Lemma xorl_invol : forall a k, (length a <= length k)%nat -> xorl (xorl a k) k = a.
Proof.
  induction a as [|x a IH]; intros k H; [reflexivity|].
  destruct k as [|y k]; [simpl in H; lia|]. unfold xorl in *. cbn [combine map fst snd].
  rewrite IH by (simpl in H; lia). f_equal. rewrite N.lxor_assoc, N.lxor_nilpotent, N.lxor_0_r. reflexivity.
Qed.

Lemma mask_blocks_length : forall fuel key ty seed iter data, (length data / 16 < fuel)%nat ->
  length (mask_blocks fuel key ty seed iter data) = length data.
Proof.
  induction fuel as [|f IH]; intros key ty seed iter data H; [lia|].
  cbn [mask_blocks]. destruct data as [|d0 dt] eqn:E; [reflexivity|]. rewrite <- E in *. clear E d0 dt.
  fold (xorl (firstn 16 data) (firstn 16 (keystream key ty seed iter))).
  rewrite app_length, xorl_length by (rewrite !firstn_length; unfold keystream; rewrite sha512_length; lia).
  destruct (Nat.le_gt_cases 16 (length data)) as [Hl|Hl].
  - rewrite IH; [rewrite firstn_length, skipn_length; lia|].
    rewrite skipn_length. assert (16 <= length data)%nat by exact Hl.
    assert ((length data - 16) / 16 = length data / 16 - 1)%nat.
    { replace (length data) with ((length data - 16) + 1 * 16)%nat at 2 by lia. rewrite Nat.div_add by lia. lia. }
    assert (1 <= length data / 16)%nat by (apply Nat.div_le_lower_bound; lia). lia.
  - rewrite skipn_all2 by lia. rewrite firstn_length.
    destruct f; cbn [mask_blocks length]; lia.
Qed.

Lemma mask_blocks_invol : forall fuel key ty seed iter data, (length data / 16 < fuel)%nat ->
  mask_blocks fuel key ty seed iter (mask_blocks fuel key ty seed iter data) = data.
Proof.
  induction fuel as [|f IH]; intros key ty seed iter data H; [lia|].
  cbn [mask_blocks]. destruct data as [|d0 dt] eqn:E; [reflexivity|]. rewrite <- E in *.
  set (ks := keystream key ty seed iter).
  assert (Hks : (16 <= length ks)%nat) by (unfold ks, keystream; rewrite sha512_length; lia).
  fold (xorl (firstn 16 data) (firstn 16 ks)).
  set (X := xorl (firstn 16 data) (firstn 16 ks)).
  set (R := mask_blocks f key ty seed ((iter + 1) mod 256) (skipn 16 data)).
  assert (HX : length X = length (firstn 16 data)) by (apply xorl_length; rewrite !firstn_length; lia).
  assert (Hne : X ++ R <> []).
  { intros Hn. apply app_eq_nil in Hn. destruct Hn as [Hn _]. rewrite Hn in HX. rewrite E in HX. simpl in HX. lia. }
  destruct (X ++ R) as [|z zs] eqn:EX; [congruence|]. rewrite <- EX. clear z zs EX Hne.
  destruct (Nat.le_gt_cases 16 (length data)) as [Hl|Hl].
  - assert (HX16 : length X = 16%nat) by (rewrite HX, firstn_length; lia).
    rewrite firstn_app, HX16, Nat.sub_diag, firstn_O, app_nil_r, firstn_all2 by lia.
    rewrite skipn_app, HX16, Nat.sub_diag, skipn_O, skipn_all2 by lia. cbn [app].
    fold (xorl X (firstn 16 ks)). unfold X. rewrite xorl_invol by (rewrite !firstn_length; lia).
    unfold R. rewrite IH.
    + apply firstn_skipn.
    + rewrite skipn_length.
      assert ((length data - 16) / 16 = length data / 16 - 1)%nat.
      { replace (length data) with ((length data - 16) + 1 * 16)%nat at 2 by lia. rewrite Nat.div_add by lia. lia. }
      assert (1 <= length data / 16)%nat by (apply Nat.div_le_lower_bound; lia). lia.
  - assert (HR : R = []).
    { unfold R. rewrite skipn_all2 by lia. destruct f; reflexivity. }
    rewrite HR, app_nil_r.
    assert (HXl : (length X < 16)%nat) by (rewrite HX, firstn_length; lia).
    rewrite firstn_all2 by lia. rewrite skipn_all2 by lia.
    fold (xorl X (firstn 16 ks)). unfold X. rewrite xorl_invol by (rewrite !firstn_length; lia).
    replace (mask_blocks f key ty seed ((iter + 1) mod 256) []) with (@nil N) by (destruct f; reflexivity).
    rewrite app_nil_r. apply firstn_all2. lia.
Qed.

(* C17-T2: masking is an involution (for every key, seed and data, including lengths beyond 4096
   bytes where the block counter wraps) *)
Theorem mask_involutive : forall key ty seed data, mask key ty seed (mask key ty seed data) = data.
Proof.
  intros. unfold mask. rewrite mask_blocks_length by lia. apply mask_blocks_invol. lia.
Qed.

(* encrypt_data / decrypt_data round trip *)
Theorem crypt_roundtrip : forall key data, decrypt_data key (encrypt_data key data) = (data, true).
Proof.
  intros key data. unfold encrypt_data, decrypt_data.
  rewrite rev_app_distr. cbn [rev app]. rewrite rev_involutive.
  rewrite N.lxor_assoc, N.lxor_nilpotent, N.lxor_0_r.
  rewrite mask_involutive. rewrite N.eqb_refl. reflexivity.
Qed.

(* ---------------------------------------------------------------------------------------- *)
(* peer list codec *)

Definition peer_ok (p : bytes) : Prop := (length p = 6%nat \/ length p = 18%nat) /\ all_bytes p.

Lemma chunks_concat : forall n (l : list bytes) rest, Forall (fun p => length p = n) l -> chunks n (length l) (concat l ++ rest) = l.
Proof.
  intros n l rest H. induction H as [|p l Hp Hl IH]; [reflexivity|].
  cbn [length concat chunks]. rewrite <- app_assoc.
  rewrite firstn_app, Hp, Nat.sub_diag, firstn_O, app_nil_r, firstn_all2 by lia.
  rewrite skipn_app, Hp, Nat.sub_diag, skipn_O, skipn_all2 by lia. cbn [app]. rewrite IH. reflexivity.
Qed.

Lemma concat_length_const : forall n (l : list bytes), Forall (fun p => length p = n) l -> length (concat l) = (n * length l)%nat.
Proof. intros n l H. induction H as [|p l Hp Hl IH]; [simpl; lia|]. cbn [concat length]. rewrite app_length, IH, Hp. lia. Qed.

Lemma all_bytes_app : forall a b, all_bytes a -> all_bytes b -> all_bytes (a ++ b).
Proof. intros. apply Forall_app. split; assumption. Qed.

Lemma all_bytes_concat : forall l, Forall all_bytes l -> all_bytes (concat l).
Proof. intros l H. induction H; [constructor|]. cbn [concat]. apply all_bytes_app; assumption. Qed.

Lemma be_enc_bytes : forall n v, all_bytes (be_enc n v).
Proof. induction n as [|n IH]; intros v; [constructor|]. cbn [be_enc]. apply all_bytes_app; [apply IH|]. constructor; [lia|constructor]. Qed.

Lemma be_val_be_enc2 : forall v, v < 65536 -> be_val (be_enc 2 v) = v.
Proof. intros v H. unfold be_val, be_enc. cbn [app be_val_acc]. lia. Qed.

(* what peerlist_decode makes of a plain (unmasked) peer list: the decoding half without masking *)
Definition plain_decode (now_hour : N) (ttl : option N) (plain : bytes) : list bytes :=
  let thn := be_val (firstn 2 plain) in
  let too_old := match ttl with
                 | None => false
                 | Some t => (t <? (now_hour + 65536 - thn) mod 65536) && (t <? (thn + 65536 - now_hour) mod 65536)
                 end in
  if too_old then [] else
  let v4count := N.to_nat (nth_b 2 plain) in
  let rest := (length plain - 3)%nat in
  if (rest <? v4count * 6)%nat || negb (Nat.eqb ((rest - v4count * 6) mod 18) 0) then [] else
  let body := skipn 3 plain in
  chunks 6 v4count body ++ chunks 18 ((rest - v4count * 6) / 18) (skipn (v4count * 6) body).

Lemma filter_v4_len : forall peers, Forall peer_ok peers ->
  Forall (fun p => length p = 6%nat) (filter is_v4 peers) /\
  Forall (fun p => length p = 18%nat) (filter (fun p => negb (is_v4 p)) peers).
Proof.
  intros peers H. induction H as [|p l [Hp _] Hl [I1 I2]]; [split; constructor|].
  cbn [filter]. destruct (is_v4 p) eqn:E; cbn [negb].
  - unfold is_v4 in E. apply Nat.eqb_eq in E. split; [constructor; assumption|assumption].
  - unfold is_v4 in E. apply Nat.eqb_neq in E. split; [assumption|constructor; [lia|assumption]].
Qed.

(* C17-T3 (plain half): the address list survives encode/decode: IPv4 entries in order, then IPv6
   entries in order, for every hour stamp and every age limit that admits the stamp *)
Theorem plain_roundtrip : forall hour now ttl peers,
  Forall peer_ok peers -> hour < 65536 -> (length (filter is_v4 peers) < 256)%nat ->
  (match ttl with None => True | Some t => (now + 65536 - hour) mod 65536 <= t \/ (hour + 65536 - now) mod 65536 <= t end) ->
  plain_decode now ttl (peerlist_plain hour peers) = filter is_v4 peers ++ filter (fun p => negb (is_v4 p)) peers.
Proof.
  intros hour now ttl peers Hp Hh Hc Hage. destruct (filter_v4_len peers Hp) as [F4 F6].
  set (v4 := filter is_v4 peers) in *. set (v6 := filter (fun p => negb (is_v4 p)) peers) in *.
  unfold plain_decode, peerlist_plain. fold v4 v6.
  assert (Hpre : be_enc 2 hour ++ [lenN v4 mod 256] ++ concat v4 ++ concat v6 =
                 [hour / 256 mod 256; hour mod 256; lenN v4 mod 256] ++ concat v4 ++ concat v6) by reflexivity.
  rewrite Hpre. cbn [app firstn skipn nth_b nth length].
  assert (Hthen : be_val [hour / 256 mod 256; hour mod 256] = hour) by (unfold be_val; cbn [be_val_acc]; lia).
  rewrite Hthen.
  assert (Hto : match ttl with None => false | Some t => (t <? (now + 65536 - hour) mod 65536) && (t <? (hour + 65536 - now) mod 65536) end = false).
  { destruct ttl as [t|]; [|reflexivity]. destruct Hage; lia. }
  rewrite Hto.
  assert (Hcnt : N.to_nat (lenN v4 mod 256) = length v4) by (unfold lenN; lia). rewrite Hcnt.
  rewrite app_length, (concat_length_const 6 v4 F4), (concat_length_const 18 v6 F6).
  replace (S (S (S (6 * length v4 + 18 * length v6))) - 3)%nat with (6 * length v4 + 18 * length v6)%nat by lia.
  assert (Nat.ltb (6 * length v4 + 18 * length v6) (length v4 * 6) = false) as -> by (apply Nat.ltb_ge; lia).
  replace (6 * length v4 + 18 * length v6 - length v4 * 6)%nat with (length v6 * 18)%nat by lia.
  rewrite Nat.mod_mul, Nat.div_mul by lia. cbn [Nat.eqb negb orb].
  rewrite (chunks_concat 6 v4 (concat v6) F4).
  rewrite skipn_app. rewrite (concat_length_const 6 v4 F4).
  replace (length v4 * 6 - 6 * length v4)%nat with 0%nat by lia. rewrite skipn_all2 by (rewrite (concat_length_const 6 v4 F4); lia).
  cbn [skipn app]. rewrite <- (app_nil_r (concat v6)). rewrite (chunks_concat 18 v6 [] F6). reflexivity.
Qed.

(* peerlist_decode = base-62 decode, seed check, plain_decode *)
Lemma peerlist_decode_unfold : forall key now ttl text,
  peerlist_decode key now ttl text =
  match from_base62 text with
  | Ok data => if negb (snd (decrypt_data key (pad_list data))) then [] else plain_decode now ttl (fst (decrypt_data key (pad_list data)))
  | _ => []
  end.
Proof.
  intros. unfold peerlist_decode, plain_decode. destruct (from_base62 text) as [data| |]; try reflexivity.
  destruct (decrypt_data key (pad_list data)) as [plain ok]. reflexivity.
Qed.

Lemma mask_length : forall key ty seed data, length (mask key ty seed data) = length data.
Proof. intros. unfold mask. apply mask_blocks_length. lia. Qed.

Lemma mask_bytes_nonempty : forall key data, encrypt_data key data <> [].
Proof. intros key data H. unfold encrypt_data in H. apply app_eq_nil in H. destruct H; discriminate. Qed.

(* C17-T3: full round trip of the peer list through masking and base 62.  Base 62 drops leading zero
   bytes of the masked body; the decoder restores them up to the next valid length (fix of F9a), which
   is exact unless the first SIX masked bytes are all zero (probability 2^-48 per beacon; stated as
   the residual class below) *)
Definition f9a_residual (key : bytes) (hour : N) (peers : list bytes) : Prop :=
  let e := encrypt_data key (peerlist_plain hour peers) in (6 <= length e - length (strip0 e))%nat.

Lemma xorl_bytes : forall a k, all_bytes a -> all_bytes k -> all_bytes (xorl a k).
Proof.
  induction a as [|x a IH]; intros k Ha Hk; [constructor|]. destruct k as [|y k]; [constructor|].
  inversion Ha; inversion Hk; subst. unfold xorl. cbn [combine map fst snd]. constructor; [|apply IH; assumption].
  assert (N.lxor x y < 2 ^ 8); [|lia].
  destruct (N.eq_dec (N.lxor x y) 0) as [->|Hnz]; [lia|]. apply N.log2_lt_pow2; [lia|].
  pose proof (N.log2_lxor x y).
  assert (N.log2 x < 8) by (destruct (N.eq_dec x 0) as [->|]; [simpl; lia|apply N.log2_lt_pow2; lia]).
  assert (N.log2 y < 8) by (destruct (N.eq_dec y 0) as [->|]; [simpl; lia|apply N.log2_lt_pow2; lia]). lia.
Qed.

Lemma firstn_bytes : forall n l, all_bytes l -> all_bytes (firstn n l).
Proof. intros n l H. unfold all_bytes in *. rewrite Forall_forall in *. intros x Hx. apply H. rewrite <- (firstn_skipn n l). apply in_or_app. left. exact Hx. Qed.
Lemma skipn_bytes : forall n l, all_bytes l -> all_bytes (skipn n l).
Proof. intros n l H. unfold all_bytes in *. rewrite Forall_forall in *. intros x Hx. apply H. rewrite <- (firstn_skipn n l). apply in_or_app. right. exact Hx. Qed.

Lemma sha512_bytes : forall m, all_bytes (sha512 m).
Proof. intros m. unfold sha512. cbn [flat_map]. repeat (apply all_bytes_app; [apply be_enc_bytes|]). constructor. Qed.

Lemma mask_blocks_bytes : forall fuel key ty seed iter data, all_bytes data -> all_bytes (mask_blocks fuel key ty seed iter data).
Proof.
  induction fuel as [|f IH]; intros key ty seed iter data H; [exact H|].
  cbn [mask_blocks]. destruct data as [|d0 dt] eqn:E; [constructor|]. rewrite <- E in *.
  apply all_bytes_app.
  - apply (xorl_bytes (firstn 16 data) (firstn 16 (keystream key ty seed iter))); apply firstn_bytes; [exact H|apply sha512_bytes].
  - apply IH. apply skipn_bytes. exact H.
Qed.

Lemma encrypt_data_bytes : forall key data, all_bytes data -> all_bytes (encrypt_data key data).
Proof.
  intros key data H. unfold encrypt_data. apply all_bytes_app; [apply mask_blocks_bytes; exact H|].
  constructor; [|constructor].
  pose proof (xorl_bytes [nth_b 0 (sha512 data)] [nth_b 0 (keystream key TYPE_SEED 0 0)]) as X.
  assert (Hb : forall m, nth_b 0 (sha512 m) < 256).
  { intros m. pose proof (sha512_bytes m) as S. pose proof (sha512_length m) as L.
    destruct (sha512 m) as [|b t]; [simpl in L; lia|]. inversion S; subst. exact H2. }
  specialize (X ltac:(constructor; [apply Hb|constructor]) ltac:(constructor; [apply Hb|constructor])).
  unfold xorl in X. cbn in X. inversion X; subst. assumption.
Qed.

Lemma peerlist_plain_bytes : forall hour peers, Forall peer_ok peers -> all_bytes (peerlist_plain hour peers).
Proof.
  intros hour peers H. unfold peerlist_plain.
  assert (Hf : forall f, all_bytes (concat (filter f peers))).
  { intros f. apply all_bytes_concat. rewrite Forall_forall in *. intros p Hp. apply filter_In in Hp. destruct Hp as [Hp _]. apply H in Hp. apply Hp. }
  apply all_bytes_app; [apply be_enc_bytes|].
  apply all_bytes_app; [constructor; [lia|constructor]|].
  apply all_bytes_app; apply Hf.
Qed.

Lemma zeros_len : forall n, length (zeros n) = n.
Proof. induction n; simpl; congruence. Qed.

Lemma strip0_decomp : forall l, zeros (length l - length (strip0 l)) ++ strip0 l = l.
Proof.
  induction l as [|b t IH]; [reflexivity|]. cbn [strip0]. destruct b as [|p].
  - pose proof (strip0_spec_len t) as Hl. cbn [length].
    replace (S (length t) - length (strip0 t))%nat with (S (length t - length (strip0 t))) by lia.
    cbn [zeros app]. rewrite IH. reflexivity.
  - rewrite Nat.sub_diag. reflexivity.
Qed.

Lemma pad_strip0 : forall e m, length e = (4 + 6 * m)%nat -> (length e - length (strip0 e) < 6)%nat -> pad_list (strip0 e) = e.
Proof.
  intros e m Hl Hk. pose proof (strip0_spec_len e) as Hs. unfold pad_list.
  assert (Hn : need_pad (length (strip0 e)) = (length e - length (strip0 e))%nat).
  { unfold need_pad. set (s := length (strip0 e)) in *. destruct (Nat.ltb s 4) eqn:E.
    - apply Nat.ltb_lt in E. assert (m = 0%nat) by lia. lia.
    - apply Nat.ltb_ge in E. assert (s - 4 = 6 * m - (4 + 6 * m - s))%nat by lia.
      set (k := (length e - s)%nat) in *. assert (Hk' : (k <= 5)%nat) by lia. assert (s = 4 + 6 * m - k)%nat by lia.
      destruct (Nat.eq_dec k 0) as [->|Hk0].
      + replace (s - 4)%nat with (m * 6)%nat by lia. rewrite Nat.mod_mul by lia. reflexivity.
      + assert (1 <= m)%nat by lia.
        replace (s - 4)%nat with ((6 - k) + (m - 1) * 6)%nat by lia. rewrite Nat.mod_add by lia.
        rewrite (Nat.mod_small (6 - k)) by lia. rewrite Nat.mod_small by lia. lia. }
  rewrite Hn. apply strip0_decomp.
Qed.

Theorem peerlist_roundtrip : forall key hour now ttl peers,
  Forall peer_ok peers -> hour < 65536 -> (length (filter is_v4 peers) < 256)%nat ->
  (match ttl with None => True | Some t => (now + 65536 - hour) mod 65536 <= t \/ (hour + 65536 - now) mod 65536 <= t end) ->
  ~ f9a_residual key hour peers ->
  peerlist_decode key now ttl (peerlist_encode key hour peers) = filter is_v4 peers ++ filter (fun p => negb (is_v4 p)) peers.
Proof.
  intros key hour now ttl peers Hp Hh Hc Hage Hcls.
  set (plain := peerlist_plain hour peers).
  assert (Hpb : all_bytes plain) by (apply peerlist_plain_bytes; exact Hp).
  pose proof (encrypt_data_bytes key plain Hpb) as Heb.
  destruct (base62_roundtrip (encrypt_data key plain) Heb) as (s & Hs1 & Hs2).
  rewrite peerlist_decode_unfold. unfold peerlist_encode. fold plain. rewrite Hs1. cbn [res_bytes_or]. rewrite Hs2.
  destruct (filter_v4_len peers Hp) as [F4 F6].
  assert (Hlen : length (encrypt_data key plain) =
                 (4 + 6 * (length (filter is_v4 peers) + 3 * length (filter (fun p => negb (is_v4 p)) peers)))%nat).
  { unfold encrypt_data. rewrite app_length, mask_length. unfold plain, peerlist_plain.
    rewrite !app_length, be_enc_length, (concat_length_const 6 _ F4), (concat_length_const 18 _ F6). simpl. lia. }
  rewrite (pad_strip0 _ _ Hlen) by (unfold f9a_residual in Hcls; fold plain in Hcls; lia).
  rewrite crypt_roundtrip. cbn [fst snd negb]. apply plain_roundtrip; assumption.
Qed.

(* ---------------------------------------------------------------------------------------- *)
(* scanner *)

Lemma is_prefix_app : forall p l, is_prefix p (p ++ l) = true.
Proof. induction p as [|x p IH]; intros l; [reflexivity|]. cbn [app is_prefix]. rewrite N.eqb_refl, IH. reflexivity. Qed.

Lemma find_bound : forall pat l i, find pat l = Some i -> (i + length pat <= length l)%nat /\ is_prefix pat (skipn i l) = true.
Proof.
  intros pat l. induction l as [|x l IH]; intros i H.
  - cbn [find] in H. destruct (is_prefix pat []) eqn:E; [|discriminate]. inversion H; subst.
    destruct pat; [simpl; split; [lia|reflexivity]|discriminate].
  - cbn [find] in H. destruct (is_prefix pat (x :: l)) eqn:E.
    + inversion H; subst. split; [|exact E]. clear H IH. revert E. generalize (x :: l). induction pat as [|a p IHp]; intros m E; [simpl; lia|].
      destruct m as [|b m]; [discriminate|]. cbn [is_prefix] in E. apply andb_true_iff in E. destruct E as [_ E]. specialize (IHp m E). simpl in *. lia.
    + destruct (find pat l) as [j|] eqn:Ef; [|discriminate]. inversion H; subst. destruct (IH j eq_refl) as [I1 I2].
      split; [simpl; lia|exact I2].
Qed.

Lemma sanitize_app : forall a b, sanitize (a ++ b) = sanitize a ++ sanitize b.
Proof. intros. unfold sanitize. apply filter_app. Qed.

Lemma sanitize_alnum : forall l, forallb is_alnum l = true -> sanitize l = l.
Proof.
  induction l as [|x l IH]; intros H; [reflexivity|]. cbn [forallb] in H. apply andb_true_iff in H. destruct H as [H1 H2].
  unfold sanitize in *. cbn [filter]. rewrite H1, IH by exact H2. reflexivity.
Qed.

Lemma sanitize_is_alnum : forall l, forallb is_alnum (sanitize l) = true.
Proof.
  induction l as [|x l IH]; [reflexivity|]. unfold sanitize in *. cbn [filter]. destruct (is_alnum x) eqn:E; [|exact IH].
  cbn [forallb]. rewrite E, IH. reflexivity.
Qed.

(* C17-T6 (a): sanitised text always decodes as base 62, so the `expect` in peerlist_decode cannot fire *)
Lemma alnum_val : forall c, is_alnum c = true -> exists v, b62_val c = Some v.
Proof.
  intros c H. unfold is_alnum in H. unfold b62_val.
  destruct ((48 <=? c) && (c <=? 57)); [eexists; reflexivity|].
  destruct ((65 <=? c) && (c <=? 90)); [eexists; reflexivity|].
  destruct ((97 <=? c) && (c <=? 122)); [eexists; reflexivity|]. discriminate.
Qed.

Theorem sanitized_decodes : forall l, forallb is_alnum l = true -> is_ok (from_base62 l) = true.
Proof.
  intros l H. unfold from_base62.
  assert (exists ds, chars_vals l = Some ds) as [ds ->]; [|reflexivity].
  induction l as [|c l IH]; [eexists; reflexivity|]. cbn [forallb] in H. apply andb_true_iff in H. destruct H as [H1 H2].
  destruct (alnum_val c H1) as [v Hv]. destruct (IH H2) as [ds Hds]. cbn [chars_vals]. rewrite Hv, Hds. eexists. reflexivity.
Qed.

(* C17-T4: a beacon embedded in text is found: if the sanitised text is pre ++ begin ++ body ++ end ++ post,
   `begin` does not occur earlier than at |pre| and `end` does not occur in body ++ end before |body|
   (the two things the scanner's `find` calls look at), the decoded list starts with the body's peers *)
Theorem scan_embedded : forall fuel key now ttl bgn en data pos found body_len,
  find bgn (skipn pos data) = Some found ->
  find en (skipn (pos + found + length bgn) data) = Some body_len ->
  exists more,
    scan (S fuel) key now ttl bgn en data pos =
    peerlist_decode key now ttl (firstn body_len (skipn (pos + found + length bgn) data)) ++ more.
Proof.
  intros fuel key now ttl bgn en data pos found body_len H1 H2.
  cbn [scan]. rewrite H1, H2. eexists.
  replace (pos + found + length bgn + body_len - (pos + found + length bgn))%nat with body_len by lia. reflexivity.
Qed.

(* C17-T6 (b): every slice the scanner takes lies inside the text (start <= end <= length) *)
Theorem scan_slices_in_range : forall bgn en data pos found body_len,
  (pos <= length data)%nat ->
  find bgn (skipn pos data) = Some found ->
  find en (skipn (pos + found + length bgn) data) = Some body_len ->
  (pos + found + length bgn <= pos + found + length bgn + body_len)%nat /\
  (pos + found + length bgn + body_len + length en <= length data)%nat.
Proof.
  intros bgn en data pos found body_len Hpos H1 H2. split; [lia|].
  apply find_bound in H1. apply find_bound in H2. destruct H1 as [H1 _]. destruct H2 as [H2 _].
  rewrite skipn_length in *. lia.
Qed.

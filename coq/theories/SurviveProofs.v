(* C09: what can remove an established peer when a datagram arrives. *)
From VpnModel Require Import Base Nonce Replay Core CoreProofs Conn PeerCrypto NodeInfo Table Node NodeProofs InitProofs TrustProofs.

Definition is_close (r : msg_result) : bool :=
  match r with MMessage ty _ => ty =? MESSAGE_TYPE_CLOSE | _ => false end.

Lemma ahas_aset_keep : forall (A:Type) (l : list (N * A)) k v a, ahas l a = true -> ahas (aset l k v) a = true.
Proof. intros. rewrite ahas_aset. rewrite H. apply Bool.orb_true_r. Qed.

Lemma ahas_adel_other : forall (A:Type) (l : list (N * A)) k a, a <> k -> ahas (adel l k) a = ahas l a.
Proof. intros A l k a H. unfold ahas. rewrite aget_adel_other by congruence. reflexivity. Qed.

Lemma add_new_peer_keeps : forall salts now n addr info a, ahas (n_peers n) a = true ->
  ahas (n_peers (fst (add_new_peer salts now n addr info))) a = true.
Proof.
  intros salts now n addr info a H. unfold add_new_peer. destruct (aget (n_pending n) addr); [|exact H].
  rewrite update_peer_info_has. cbn [upd n_peers]. apply ahas_aset_keep. exact H.
Qed.

(* a message that got through the crypto layer removes a peer entry only if it is a CLOSE message, and then only the sender's *)
Lemma handle_result_keeps : forall salts now n src r reply a, ahas (n_peers n) a = true ->
  ahas (n_peers (fst (handle_result salts now n src r reply))) a = true \/ (a = src /\ is_close r = true).
Proof.
  intros salts now n src r reply a H. destruct r as [ty body|p|p| |]; cbn [handle_result].
  - destruct (ty =? MESSAGE_TYPE_DATA) eqn:E0.
    { left. destruct (parse_frame (n_cfg n) body) as [[s d]|e|s]; [|exact H|exact H]. destruct (c_learning (n_cfg n)); exact H. }
    destruct (ty =? MESSAGE_TYPE_NODE_INFO) eqn:E1.
    { left. destruct (ni_decode body); [rewrite update_peer_info_has; exact H|exact H|exact H]. }
    destruct (ty =? MESSAGE_TYPE_KEEPALIVE) eqn:E2; [left; rewrite update_peer_info_has; exact H|].
    destruct (ty =? MESSAGE_TYPE_CLOSE) eqn:E3; [|left; exact H].
    destruct (N.eq_dec a src) as [->|Hne]; [right; split; [reflexivity|cbn [is_close]; exact E3]|].
    left. cbn [fst]. unfold remove_peer. destruct (aget (n_peers n) src); [|exact H]. cbn [upd n_peers]. rewrite ahas_adel_other by exact Hne. exact H.
  - left. destruct (ni_decode p); [apply add_new_peer_keeps; exact H|exact H|exact H].
  - left. destruct (ni_decode p) as [info|e|s]; [|exact H|exact H].
    pose proof (add_new_peer_keeps salts now n src info a H) as K. destruct (add_new_peer salts now n src info) as [n1 fx]. exact K.
  - left. exact H.
  - left. exact H.
Qed.

(* C09: whatever datagram arrives from whatever source, an established peer stays a peer - unless the datagram opened
   (genuine seal, window admits: C03) as a CLOSE message of that very peer *)
Theorem established_peer_survives : forall salts now n src w a,
  ahas (n_peers n) a = true ->
  ahas (n_peers (fst (handle_net salts now n src w))) a = true \/
  (a = src /\ exists pc r, snd (fst (pc_handle payload_ok pc w)) = Ok r /\ is_close r = true).
Proof.
  intros salts now n src w a H. unfold handle_net.
  assert (K : forall n1 pc, ahas (n_peers n1) a = true ->
     forall pc' r reply, pc_handle payload_ok pc w = (pc', r, reply) ->
     match r with
     | Ok res => ahas (n_peers (fst (handle_result salts now n1 src res reply))) a = true
     | _ => True end \/
     (a = src /\ exists pc0 r0, snd (fst (pc_handle payload_ok pc0 w)) = Ok r0 /\ is_close r0 = true)).
  { intros n1 pc Hn1 pc' r reply Eh. destruct r as [res|c|s]; [|left; exact I|left; exact I].
    destruct (handle_result_keeps salts now n1 src res reply a Hn1) as [G|[Ga Gc]]; [left; exact G|].
    right. split; [exact Ga|]. exists pc, res. rewrite Eh. cbn [fst snd]. split; [reflexivity|exact Gc]. }
  destruct (if is_init_wire w || negb (ahas (n_peers n) src) then aget (n_pending n) src else None) as [pc|] eqn:Ep.
  - destruct (pc_handle payload_ok pc w) as [[pc' r] reply] eqn:Eh.
    destruct (K (upd n (n_peers n) (aset (n_pending n) src pc') (n_own n) (n_table n)) pc H pc' r reply Eh) as [G|G]; [|right; exact G].
    left. destruct r as [res|c|s]; [exact G| |exact H]. destruct (c =? 2); exact H.
  - destruct (is_init_wire w) eqn:Ew.
    + destruct (match aget (n_peers n) src with Some pd => if pc_has_init (p_crypto pd) then Some pd else None | None => None end) as [pd|] eqn:Epd.
      * destruct (pc_handle payload_ok (p_crypto pd) w) as [[pc' r] reply] eqn:Eh.
        set (n1 := upd n (aset (n_peers n) src _) (n_pending n) (n_own n) (n_table n)).
        assert (Hn1 : ahas (n_peers n1) a = true) by (unfold n1; cbn [upd n_peers]; apply ahas_aset_keep; exact H).
        destruct (K n1 (p_crypto pd) Hn1 pc' r reply Eh) as [G|G]; [|right; exact G].
        left. destruct r as [res|c|s]; [exact G|exact Hn1|exact Hn1].
      * destruct (new_instance n (salt_for salts (c_num (n_cfg n)) src)) as [n0 pc] eqn:En.
        assert (Hn0 : n_peers n0 = n_peers n) by (unfold new_instance in En; inversion En; reflexivity).
        destruct (pc_handle payload_ok pc w) as [[pc' r] reply] eqn:Eh.
        assert (Hn1 : ahas (n_peers (upd n0 (n_peers n0) (aset (n_pending n0) src pc') (n_own n0) (n_table n0))) a = true)
          by (cbn [upd n_peers]; rewrite Hn0; exact H).
        destruct (K _ pc Hn1 pc' r reply Eh) as [G|G]; [|right; exact G].
        left. destruct r as [res|c|s]; [exact G|cbn [fst with_invalid n_peers]; rewrite Hn0; exact H|cbn [fst]; rewrite Hn0; exact H].
    + destruct (aget (n_peers n) src) as [pd|] eqn:Hpd.
      * destruct (pc_handle payload_ok (p_crypto pd) w) as [[pc' r] reply] eqn:Eh.
        set (n1 := upd n (aset (n_peers n) src _) (n_pending n) (n_own n) (n_table n)).
        assert (Hn1 : ahas (n_peers n1) a = true) by (unfold n1; cbn [upd n_peers]; apply ahas_aset_keep; exact H).
        destruct (K n1 (p_crypto pd) Hn1 pc' r reply Eh) as [G|G]; [|right; exact G].
        left. destruct r as [res|c|s]; [exact G|exact Hn1|exact Hn1].
      * left. exact H.
Qed.

(* Model of ClaimTable (src/table.rs).  Peers are N (socket addresses abstracted to numbers),
   addresses are byte strings, time is Z (Time = i64 seconds; no overflow modelled: values stay far
   below 2^63).  The cache HashMap is an association list with unique keys; every use in the code is
   order-insensitive (insert / get / retain / values_mut with a uniform update). *)
From VpnModel Require Import Base RangeMatch.

Record claim := { c_peer : N; c_base : bytes; c_prefix : N; c_timeout : Z }.
Record centry := { e_addr : bytes; e_peer : N; e_timeout : Z }.
Record table := { cache : list centry; claims : list claim; cache_timeout : Z; claim_timeout : Z }.

Definition table_new (cache_to claim_to : Z) : table :=
  {| cache := []; claims := []; cache_timeout := cache_to; claim_timeout := claim_to |}.

Definition range_eqb (b1 : bytes) (p1 : N) (b2 : bytes) (p2 : N) : bool := list_eqb b1 b2 && (p1 =? p2).

Definition set_cache (t : table) (c : list centry) : table :=
  {| cache := c; claims := claims t; cache_timeout := cache_timeout t; claim_timeout := claim_timeout t |}.
Definition set_claims_list (t : table) (c : list claim) : table :=
  {| cache := cache t; claims := c; cache_timeout := cache_timeout t; claim_timeout := claim_timeout t |}.

Definition cache_insert (c : list centry) (a : bytes) (p : N) (to : Z) : list centry :=
  {| e_addr := a; e_peer := p; e_timeout := to |} :: filter (fun e => negb (list_eqb (e_addr e) a)) c.

(* ClaimTable::cache (learning) *)
Definition table_cache (t : table) (now : Z) (a : bytes) (p : N) : table :=
  set_cache t (cache_insert (cache t) a p (now + cache_timeout t)%Z).

(* ClaimTable::housekeep *)
Definition table_housekeep (t : table) (now : Z) : table :=
  {| cache := filter (fun e => (now <=? e_timeout e)%Z) (cache t);
     claims := filter (fun c => (now <=? c_timeout c)%Z) (claims t);
     cache_timeout := cache_timeout t; claim_timeout := claim_timeout t |}.

(* position of a range in the remaining new-claims list + swap_remove *)
Fixpoint position (b : bytes) (p : N) (l : list (bytes * N)) : option nat :=
  match l with
  | [] => None
  | (b', p') :: t => if range_eqb b' p' b p then Some O else option_map S (position b p t)
  end.
(* SmallVec::swap_remove: remove index i, move the last element into its place *)
Definition swap_remove {A} (i : nat) (l : list A) : list A :=
  match rev l with
  | [] => []
  | lastx :: _ =>
      if Nat.eqb (S i) (length l) then removelast l
      else firstn i l ++ lastx :: skipn (S i) (removelast l)
  end.

(* the first loop of set_claims (after the fix: of finding F3: no early break).
   returns (entries, remaining new claims, removed_claim flag) *)
Fixpoint sc_loop (peer : N) (now claim_to : Z) (es : list claim) (new : list (bytes * N)) (removed : bool)
  : list claim * list (bytes * N) * bool :=
  match es with
  | [] => ([], new, removed)
  | e :: t =>
      if c_peer e =? peer then
        match position (c_base e) (c_prefix e) new with
        | Some pos =>
            let e' := {| c_peer := c_peer e; c_base := c_base e; c_prefix := c_prefix e; c_timeout := (now + claim_to)%Z |} in
            let '(t', n', r') := sc_loop peer now claim_to t (swap_remove pos new) removed in
            (e' :: t', n', r')
        | None =>
            let e' := {| c_peer := c_peer e; c_base := c_base e; c_prefix := c_prefix e; c_timeout := 0%Z |} in
            let '(t', n', r') := sc_loop peer now claim_to t new true in
            (e' :: t', n', r')
        end
      else
        let '(t', n', r') := sc_loop peer now claim_to t new removed in (e :: t', n', r')
  end.

Definition table_set_claims (t : table) (now : Z) (peer : N) (new : list (bytes * N)) : table :=
  let '(es, rest, removed) := sc_loop peer now (claim_timeout t) (claims t) new false in
  let es' := es ++ map (fun r => {| c_peer := peer; c_base := fst r; c_prefix := snd r; c_timeout := (now + claim_timeout t)%Z |}) rest in
  let ch := if removed
            then map (fun e => if e_peer e =? peer then {| e_addr := e_addr e; e_peer := e_peer e; e_timeout := 0%Z |} else e) (cache t)
            else cache t in
  table_housekeep {| cache := ch; claims := es'; cache_timeout := cache_timeout t; claim_timeout := claim_timeout t |} now.

Definition table_remove_claims (t : table) (now : Z) (peer : N) : table :=
  table_housekeep
    {| cache := map (fun e => if e_peer e =? peer then {| e_addr := e_addr e; e_peer := e_peer e; e_timeout := 0%Z |} else e) (cache t);
       claims := map (fun c => if c_peer c =? peer then {| c_peer := c_peer c; c_base := c_base c; c_prefix := c_prefix c; c_timeout := 0%Z |} else c) (claims t);
       cache_timeout := cache_timeout t; claim_timeout := claim_timeout t |} now.

Fixpoint cache_get (c : list centry) (a : bytes) : option centry :=
  match c with
  | [] => None
  | e :: t => if list_eqb (e_addr e) a then Some e else cache_get t a
  end.

(* the cold path of lookup: last-wins only on strictly greater prefix, i.e. the first claim with
   maximal prefix among the matching ones.  best = (prefix_len as isize, entry) *)
Fixpoint best_claim (cs : list claim) (a : bytes) (best : option claim) : option claim :=
  match cs with
  | [] => best
  | c :: t =>
      let better := match best with None => true | Some b => c_prefix b <? c_prefix c end in
      if better && range_matches (c_base c) (c_prefix c) a then best_claim t a (Some c) else best_claim t a best
  end.

Definition table_lookup (t : table) (now : Z) (a : bytes) : option N * table :=
  match cache_get (cache t) a with
  | Some e => (Some (e_peer e), t)
  | None =>
      match best_claim (claims t) a None with
      | Some c => (Some (c_peer c),
                   set_cache t (cache_insert (cache t) a (c_peer c) (Z.min (now + cache_timeout t) (c_timeout c))))
      | None => (None, t)
      end
  end.

(* C05: the loss-free three-way handshake, for all parameters: both ends complete, with the payload the
   other offered, the same cipher, the same key under key id 0 and opposite nonce halves. *)
From VpnModel Require Import Base Nonce NonceProofs Replay Core CoreProofs NoReuseProofs Conn InitProofs Rotation2Proofs.
From Coq Require Import ZifyBool ZifyNat ZifyN.

(* fresh cores of the two ends open each other's seals *)
Lemma core_new_wf : forall k d hf r0 r1 r2 r3, wf_core (core_new k d hf r0 r1 r2 r3).
Proof. intros. split; [reflexivity|cbn; lia]. Qed.

Lemma start_rebuild : forall (hf : bool) r, all_bytes r -> length r = 6%nat ->
  nonce_rebuild (negb hf) (nonce_wire (nonce_increment (nonce_start hf r))) = nonce_increment (nonce_start hf r).
Proof.
  intros hf r Hb Hl. change (nonce_start hf r) with ((if hf then 128 else 0) :: [0; 0; 0; 0] ++ (0 :: r)).
  apply (rebuild_after_increment hf (0 :: r)).
  - cbn [length]. rewrite Hl. reflexivity.
  - constructor; [lia|exact Hb].
  - apply Exists_cons_hd. lia.
Qed.

Definition sends_fresh (c : core) (hf : bool) (r : bytes) : Prop :=
  wf_core c /\ current c = 0 /\ s_send (get_slot c 0) = nonce_start hf r.
Definition recv_fresh (c : core) (hf : bool) : Prop :=
  wf_core c /\ half c = hf /\ minn (s_win (get_slot c 0)) = 0.

Lemma fresh_roundtrip : forall c1 c2 hf r p, all_bytes r -> length r = 6%nat ->
  sends_fresh c1 hf r -> recv_fresh c2 (negb hf) -> s_key (get_slot c2 0) = s_key (get_slot c1 0) ->
  snd (core_decrypt c2 (snd (core_encrypt c1 p))) = Ok p.
Proof.
  intros c1 c2 hf r p Hb Hl (W1 & C1 & S1) (W2 & H2 & M2) Hk.
  apply core_roundtrip; try assumption; rewrite C1.
  - exact Hk.
  - rewrite S1, H2. apply start_rebuild; assumption.
  - unfold accepts. rewrite M2. destruct (be_val _ <? 0) eqn:E; [lia|reflexivity].
Qed.


Lemma dec_preserves : forall c d, wf_core c ->
  let c' := fst (core_decrypt c d) in
  wf_core c' /\ current c' = current c /\ half c' = half c /\
  (forall i, i < 4 -> s_key (get_slot c' i) = s_key (get_slot c i) /\ s_send (get_slot c' i) = s_send (get_slot c i)).
Proof.
  intros c d Hwf. destruct (dec_cases c d Hwf) as [E|(keyid & w & Hk & E)]; cbn zeta; rewrite E.
  - split; [exact Hwf|]. split; [reflexivity|]. split; [reflexivity|]. intros; split; reflexivity.
  - split; [apply wf_set; exact Hwf|]. split; [reflexivity|]. split; [reflexivity|].
    intros i Hi. destruct (N.eq_dec keyid i) as [->|Hne].
    + rewrite get_set_same by assumption. split; reflexivity.
    + rewrite get_set_other by assumption. split; reflexivity.
Qed.

Lemma enc_preserves : forall c p, wf_core c ->
  let c' := fst (core_encrypt c p) in
  wf_core c' /\ current c' = current c /\ half c' = half c /\
  (forall i, i < 4 -> s_key (get_slot c' i) = s_key (get_slot c i) /\ s_win (get_slot c' i) = s_win (get_slot c i)).
Proof.
  intros c p Hwf. cbn zeta. split; [apply wf_encrypt; exact Hwf|]. split; [reflexivity|]. split; [reflexivity|].
  intros i Hi. unfold core_encrypt. cbn [fst]. destruct (N.eq_dec (current c) i) as [E|Hne].
  - subst i. rewrite get_set_same by assumption. split; reflexivity.
  - rewrite get_set_other by (try assumption; apply Hwf). split; reflexivity.
Qed.

Definition run3 (ok : bytes -> bool) (A B : init_state) :=
  let '(A1, ping) := init_send_ping A in
  let '(B1, rb1, pong) := handle_init ok B ping in
  match pong with
  | None => None
  | Some pong =>
      let '(A2, ra, peng) := handle_init ok A1 pong in
      match peng with
      | None => None
      | Some peng => let '(B2, rb2, _) := handle_init ok B1 peng in Some (A2, B2, rb1, ra, rb2)
      end
  end.

Section Lockstep.
  Local Arguments select_algorithm : simpl never.
  Local Arguments ecdh : simpl never.
  Local Arguments ecdh_pub : simpl never.
  Local Arguments core_encrypt : simpl never.
  Local Arguments core_decrypt : simpl never.
  Local Arguments core_new : simpl never.
  Local Arguments hash_gt : simpl never.
  Local Arguments existsb : simpl never.
  Local Arguments N.eqb : simpl nomatch.
  Local Arguments N.add : simpl never.
  Local Arguments N.pow : simpl never.
  Local Arguments N.modulo : simpl never.
  Local Arguments dh_name : simpl never.
  Variables (ok : bytes -> bool).
  Variables (nA sA kA fA nB sB kB fB : N) (pA pB rA rB : bytes) (tA tB : list N) (aA aB : algos).
  Hypothesis HtA : existsb (N.eqb kB) tA = true.
  Hypothesis HtB : existsb (N.eqb kA) tB = true.
  Hypothesis Hnode : nA <> nB.
  Hypothesis HokA : ok pA = true.
  Hypothesis HokB : ok pB = true.
  Hypothesis HrA : all_bytes rA /\ length rA = 6%nat.
  Hypothesis HrB : all_bytes rB /\ length rB = 6%nat.
  Variable alg : option (N * N).
  Hypothesis HselB : select_algorithm aB aA = Ok alg.
  Hypothesis HselA : select_algorithm aA aB = Ok alg.

  Definition A0 := init_new nA sA pA kA tA aA fA rA.
  Definition B0 := init_new nB sB pB kB tB aB fB rB.

  Theorem lockstep_agreement_sec : exists A2 B2,
    run3 ok A0 B0 = Some (A2, B2, Ok IContinue, Ok (ISuccess pB true), Ok (ISuccess pA false)) /\
    i_selected A2 = option_map fst alg /\ i_selected B2 = option_map fst alg /\
    i_stage A2 = WAITING_TO_CLOSE /\ i_stage B2 = CLOSING /\
    match alg with
    | None => i_core A2 = None /\ i_core B2 = None
    | Some _ => exists ca cb, i_core A2 = Some ca /\ i_core B2 = Some cb /\ wf_core ca /\ wf_core cb /\
                              current ca = 0 /\ current cb = 0 /\
                              s_key (get_slot ca 0) = s_key (get_slot cb 0) /\ half ca = negb (half cb)
    end.
  Proof.
    unfold run3. unfold init_send_ping, A0, init_new, init_send. cbn.
    unfold handle_init at 1. unfold B0, init_new. cbn. rewrite HtB. cbn.
    assert (Hnn : (nB =? nA) = false) by (apply N.eqb_neq; congruence). rewrite Hnn. rewrite Bool.andb_false_r. cbn.
    rewrite HselB. rewrite ecdh_pub_ok.
    destruct alg as [[a sp]|].
    - set (K := dh_name (fB mod 2 ^ 256) (fA mod 2 ^ 256)).
      set (hB := hash_gt sB nB sA nA).
      cbn. unfold init_send, init_encrypt_payload, core_of_key, upd_init. cbn.
      set (cB := core_new K (fB + 1) hB rB rB rB rB).
      destruct (core_encrypt cB pB) as [cB1 dB] eqn:EB. cbn.
      unfold handle_init at 1. cbn. rewrite HtA. cbn.
      assert (Hnn2 : (nA =? nB) = false) by (apply N.eqb_neq; congruence). rewrite Hnn2. rewrite Bool.andb_false_r. cbn.
      rewrite HselA. rewrite ecdh_pub_ok.
      replace (dh_name (fA mod 2 ^ 256) (fB mod 2 ^ 256)) with K by (unfold K; apply dh_name_sym).
      set (hA := hash_gt sA nA sB nB).
      assert (HhA : hA = negb hB) by (unfold hA, hB; apply hash_gt_opposite; right; exact Hnode).
      unfold core_of_key, upd_init. cbn.
      set (cA := core_new K (fA + 1) hA rA rA rA rA).
      unfold init_decrypt.
      assert (HdB : snd (core_decrypt cA dB) = Ok pB).
      { replace dB with (snd (core_encrypt cB pB)) by (rewrite EB; reflexivity).
        apply (fresh_roundtrip cB cA hB rB pB); try apply HrB.
        - split; [apply core_new_wf|]. split; reflexivity.
        - split; [apply core_new_wf|]. split; [exact HhA|reflexivity].
        - reflexivity. }
      destruct (core_decrypt cA dB) as [cA1 rd] eqn:ED. cbn [snd] in HdB. subst rd. rewrite HokB. cbn.
      unfold init_send, init_encrypt_payload, upd_init. cbn.
      destruct (core_encrypt cA1 pA) as [cA2 dA] eqn:EA. cbn.
      unfold handle_init. cbn. rewrite HtB. cbn. rewrite Hnn. rewrite Bool.andb_false_r. cbn.
      unfold init_decrypt, upd_init. cbn.
      assert (WA : wf_core cA) by apply core_new_wf. assert (WB : wf_core cB) by apply core_new_wf.
      pose proof (dec_preserves cA dB WA) as PA. rewrite ED in PA. cbn [fst] in PA. destruct PA as (WA1 & CA1 & HA1 & KA1).
      pose proof (enc_preserves cB pB WB) as PB. rewrite EB in PB. cbn [fst] in PB. destruct PB as (WB1 & CB1 & HB1 & KB1).
      assert (HdA : snd (core_decrypt cB1 dA) = Ok pA).
      { replace dA with (snd (core_encrypt cA1 pA)) by (rewrite EA; reflexivity).
        apply (fresh_roundtrip cA1 cB1 hA rA pA); try apply HrA.
        - split; [exact WA1|]. split; [rewrite CA1; reflexivity|]. rewrite (proj2 (KA1 0 eq_refl)). reflexivity.
        - split; [exact WB1|]. split; [rewrite HB1, HhA, Bool.negb_involutive; reflexivity|]. rewrite (proj2 (KB1 0 eq_refl)). reflexivity.
        - rewrite (proj1 (KB1 0 eq_refl)), (proj1 (KA1 0 eq_refl)). reflexivity. }
      destruct (core_decrypt cB1 dA) as [cB2 rd] eqn:ED2. cbn [snd] in HdA. subst rd. rewrite HokA. cbn.
      eexists. eexists. split; [reflexivity|]. cbn [i_selected i_stage i_core option_map fst].
      do 4 (split; [reflexivity|]).
      pose proof (enc_preserves cA1 pA WA1) as PA2. rewrite EA in PA2. cbn [fst] in PA2. destruct PA2 as (WA2 & CA2 & HA2 & KA2).
      pose proof (dec_preserves cB1 dA WB1) as PB2. rewrite ED2 in PB2. cbn [fst] in PB2. destruct PB2 as (WB2 & CB2 & HB2 & KB2).
      exists cA2, cB2. split; [reflexivity|]. split; [reflexivity|]. split; [exact WA2|]. split; [exact WB2|].
      split; [rewrite CA2, CA1; reflexivity|]. split; [rewrite CB2, CB1; reflexivity|].
      split.
      + rewrite (proj1 (KA2 0 eq_refl)), (proj1 (KA1 0 eq_refl)), (proj1 (KB2 0 eq_refl)), (proj1 (KB1 0 eq_refl)). reflexivity.
      + rewrite HA2, HA1, HB2, HB1. exact HhA.
    - cbn. unfold init_send, init_encrypt_payload, core_of_key, upd_init. cbn.
      unfold handle_init at 1. cbn. rewrite HtA. cbn.
      assert (Hnn2 : (nA =? nB) = false) by (apply N.eqb_neq; congruence). rewrite Hnn2. rewrite Bool.andb_false_r. cbn.
      rewrite HselA. cbn. unfold init_decrypt, upd_init. cbn. rewrite HokB. cbn.
      unfold init_send, init_encrypt_payload, upd_init. cbn.
      unfold handle_init. cbn. rewrite HtB. cbn. rewrite Hnn. rewrite Bool.andb_false_r. cbn.
      unfold init_decrypt, upd_init. cbn. rewrite HokA. cbn.
      eexists. eexists. split; [reflexivity|]. cbn [i_selected i_stage i_core option_map fst].
      do 4 (split; [reflexivity|]). split; reflexivity.
  Qed.

End Lockstep.


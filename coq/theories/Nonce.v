(* Model of Nonce::increment and of the wire form of the counter (src/crypto/core.rs). *)
From VpnModel Require Import Base.

(* least-significant byte first *)
Fixpoint inc_le (l : bytes) : bytes :=
  match l with
  | [] => []
  | b :: t => let n := (b + 1) mod 256 in
              if 0 <? n then n :: t else n :: inc_le t
  end.

(* Nonce::increment on the big-endian array *)
Definition nonce_increment (b : bytes) : bytes := rev (inc_le (rev b)).

Fixpoint le_val (l : bytes) : N :=
  match l with [] => 0 | b :: t => b + 256 * le_val t end.

(* wire form: bytes 5..12 of the 12-byte nonce; receiver reconstruction *)
Definition nonce_wire (n : bytes) : bytes := skipn 5 n.
Definition nonce_rebuild (receiver_half : bool) (wire7 : bytes) : bytes :=
  (if receiver_half then 0 else 128) :: [0; 0; 0; 0] ++ wire7.
(* CryptoKey::new: 6 random low bytes, msb by half *)
Definition nonce_start (half : bool) (rnd6 : bytes) : bytes :=
  (if half then 128 else 0) :: [0; 0; 0; 0; 0] ++ rnd6.

(* C15, "... is removed, with its routes, at the next housekeeping tick and re-dialled": the expiry phase of housekeeping sends a
   fresh stage-1 handshake message (ping) to the address of every peer it removes - whatever else the peer had advertised, whatever
   the other peers and pending handshakes are - unless that address is one of the node's own or a handshake with it is already
   pending (the two cases in which connect_sock does nothing). *)
From VpnModel Require Import Base RangeMatch Table Nonce Replay Core Conn PeerCrypto NodeInfo Interval Node NodeProofs TrustProofs NextHopProofs.

Definition is_ping_to (addr : N) (e : effect) : Prop :=
  exists m, e = XSend addr (WInit m) /\ im_stage m = STAGE_PING /\ im_payload m = None.

Lemma connect_sock_own_pending : forall salts n a,
  n_own (fst (connect_sock salts n a)) = n_own n /\
  (forall b, b <> a -> ahas (n_pending (fst (connect_sock salts n a))) b = ahas (n_pending n) b).
Proof.
  intros salts n a. unfold connect_sock.
  destruct (ahas (n_peers n) a || memN a (n_own n) || ahas (n_pending n) a); [split; [reflexivity|intros; reflexivity]|].
  unfold new_instance. destruct (pc_initialize _) as [pc' [w|e|s]]; cbn [fst upd n_own n_pending with_objs]; split; try reflexivity; intros b Hb; try reflexivity.
  rewrite ahas_aset. assert ((b =? a) = false) as -> by lia. reflexivity.
Qed.

Lemma connect_sock_dials : forall salts n a,
  ahas (n_peers n) a = false -> memN a (n_own n) = false -> ahas (n_pending n) a = false ->
  exists e, snd (connect_sock salts n a) = [e] /\ is_ping_to a e.
Proof.
  intros salts n a H1 H2 H3. unfold connect_sock. rewrite H1, H2, H3. cbn [orb].
  unfold new_instance, pc_new, pc_initialize. cbn [pc_init init_new i_stage]. 
  assert ((STAGE_PING =? STAGE_PING) = true) as -> by reflexivity. cbn [negb].
  unfold init_send_ping, init_send. assert ((STAGE_PING =? STAGE_PING) = true) as -> by reflexivity.
  cbn [snd]. eexists. split; [reflexivity|]. eexists. split; [reflexivity|]. split; reflexivity.
Qed.

Theorem expired_peer_redialled : forall salts now n addr pd,
  aget (n_peers n) addr = Some pd -> (p_timeout pd < now)%Z ->
  memN addr (n_own n) = false -> ahas (n_pending n) addr = false ->
  exists e, In e (snd (expire_phase salts now n)) /\ is_ping_to addr e.
Proof.
  intros salts now n addr pd Hget Hto Hown Hpend. unfold expire_phase.
  set (l := map fst (filter (fun e => (p_timeout (snd e) <? now)%Z) (n_peers n))).
  assert (Hin : In addr l).
  { unfold l. clear l Hown Hpend. induction (n_peers n) as [|[k v] t IH]; [discriminate|]. cbn [aget] in Hget. cbn [filter snd].
    destruct (addr =? k) eqn:E.
    - apply N.eqb_eq in E. subst k. inversion Hget; subst v. assert ((p_timeout pd <? now)%Z = true) as -> by lia. left. reflexivity.
    - destruct (p_timeout v <? now)%Z; [right|]; apply IH; exact Hget. }
  assert (G : forall l m fx,
      ((In addr l /\ memN addr (n_own m) = false /\ ahas (n_pending m) addr = false) \/ (exists e, In e fx /\ is_ping_to addr e)) ->
      let r := fold_left (fun acc a => let '(m, fx) := acc in
                 let m1 := upd m (adel (n_peers m) a) (n_pending m) (n_own m) (table_remove_claims (n_table m) now a) in
                 let '(m2, fx') := connect_sock salts m1 a in (m2, fx ++ fx')) l (m, fx) in
      exists e, In e (snd r) /\ is_ping_to addr e).
  { clear. induction l as [|a l IH]; intros m fx H.
    - destruct H as [[[] _]|H]. exact H.
    - cbn [fold_left].
      set (m1 := upd m (adel (n_peers m) a) (n_pending m) (n_own m) (table_remove_claims (n_table m) now a)).
      destruct (connect_sock_own_pending salts m1 a) as [C1 C2].
      pose proof (connect_sock_dials salts m1 a) as C3.
      destruct (connect_sock salts m1 a) as [m2 fx'] eqn:Ec. cbn [fst snd] in C1, C2, C3.
      apply IH.
      destruct H as [(Hl & Ho & Hp)|(e & He & Hpe)].
      + destruct (N.eq_dec a addr) as [->|Hne].
        * right. destruct C3 as (e & -> & Hpe).
          -- unfold m1. cbn [upd n_peers]. unfold ahas. rewrite aget_adel_same. reflexivity.
          -- exact Ho.
          -- exact Hp.
          -- exists e. split; [apply in_or_app; right; left; reflexivity|exact Hpe].
        * left. destruct Hl as [Hl|Hl]; [congruence|]. split; [exact Hl|]. split.
          -- rewrite C1. exact Ho.
          -- rewrite C2 by (intro; subst; congruence). exact Hp.
      + right. exists e. split; [apply in_or_app; left; exact He|exact Hpe]. }
  apply G. left. split; [exact Hin|]. split; assumption.
Qed.

(* ... and the expiry phase's datagrams are the first of the housekeeping tick *)
Lemma housekeep_effects_start_with_expire : forall salts now n e,
  In e (snd (expire_phase salts now n)) -> In e (snd (housekeep salts now n)).
Proof.
  intros salts now n e H. unfold housekeep. fold (expire_phase salts now n).
  destruct (expire_phase salts now n) as [n1 fx1]. cbn [snd] in H.
  destruct (crypto_housekeep _ _ _) as [n3 fx3].
  destruct (if (n_next_peers n3 <=? now)%Z then _ else _) as [n4 fx4].
  destruct (reconnect_step salts now n4) as [n5 fx5]. cbn [snd]. apply in_or_app. left. exact H.
Qed.

Theorem housekeep_redials_expired : forall salts now n addr pd,
  aget (n_peers n) addr = Some pd -> (p_timeout pd < now)%Z ->
  memN addr (n_own n) = false -> ahas (n_pending n) addr = false ->
  exists e, In e (snd (housekeep salts now n)) /\ is_ping_to addr e.
Proof.
  intros salts now n addr pd H1 H2 H3 H4. destruct (expired_peer_redialled salts now n addr pd H1 H2 H3 H4) as (e & He & Hp).
  exists e. split; [apply housekeep_effects_start_with_expire; exact He|exact Hp].
Qed.

(* non-vacuity: the example state of NextHopProofs holds the peer 1001, not among its own addresses, no handshake pending with it;
   by time 1000 its deadline has passed *)
Lemma ex_redial : exists pd, aget (n_peers ex_b) 1001 = Some pd /\ (p_timeout pd < 1000)%Z /\
  memN 1001 (n_own ex_b) = false /\ ahas (n_pending ex_b) 1001 = false.
Proof. eexists. split; [vm_compute; reflexivity|]. split; [vm_compute; reflexivity|]. split; vm_compute; reflexivity. Qed.

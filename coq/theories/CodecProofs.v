From VpnModel Require Import Base Conn InitMsg Rotation2Proofs BeaconProofs DissectProofs.
From Coq Require Import ZifyBool ZifyNat ZifyN.
Ltac Zify.zify_post_hook ::= Z.div_mod_to_equations.

Lemma firstn_app_l : forall (A:Type) (a b : list A) n, n = length a -> firstn n (a ++ b) = a.
Proof. intros. subst. rewrite firstn_app, Nat.sub_diag, firstn_all. simpl. apply app_nil_r. Qed.
Lemma skipn_app_l : forall (A:Type) (a b : list A) n, n = length a -> skipn n (a ++ b) = b.
Proof. intros. subst. rewrite skipn_app, Nat.sub_diag, skipn_all. reflexivity. Qed.

Lemma be_val_enc_small : forall n v, v < 256 ^ N.of_nat n -> be_val (be_enc n v) = v.
Proof. intros n v H. rewrite be_val_be_enc. apply N.mod_small. exact H. Qed.

(* ---------------------------------------------------------------------------------------- *)
(* rotation messages *)

Definition rot_wf (m : rot_msg) : Prop :=
  rm_id m < 2 ^ 64 /\ (length (rm_propose m) < 256)%nat /\
  match rm_confirm m with Some c => (0 < length c < 256)%nat | None => True end.

(* C16-T4 *)
Theorem rot_roundtrip : forall m tail, rot_wf m -> rot_decode (rot_encode m ++ tail) = Some m.
Proof.
  intros [id prop conf] tail (Hid & Hp & Hc). cbn [rm_id rm_propose rm_confirm] in *.
  unfold rot_encode, rot_decode. cbn [rm_id rm_propose rm_confirm].
  remember (be_enc 8 id) as E eqn:HEq.
  remember (match conf with Some c => [lenN c mod 256] ++ c | None => [0] end) as C eqn:HC.
  assert (HE : length E = 8%nat) by (subst E; apply be_enc_len).
  assert (Hflat : (E ++ [lenN prop mod 256] ++ prop ++ C) ++ tail = E ++ (lenN prop mod 256) :: prop ++ C ++ tail).
  { rewrite <- app_assoc. cbn [app]. rewrite <- app_assoc. reflexivity. }
  rewrite Hflat.
  assert (Hl : Nat.ltb (length (E ++ (lenN prop mod 256) :: prop ++ C ++ tail)) 9 = false).
  { apply Nat.ltb_ge. rewrite app_length, HE. simpl. lia. }
  rewrite Hl.
  rewrite (firstn_app_l _ E _ 8 (eq_sym HE)).
  unfold nth_b. rewrite app_nth2 by lia. rewrite HE. cbn [Nat.sub nth].
  assert (Hk : N.to_nat (lenN prop mod 256) = length prop) by (unfold lenN; lia). rewrite Hk.
  replace (skipn 9 (E ++ (lenN prop mod 256) :: prop ++ C ++ tail)) with (prop ++ C ++ tail).
  2: { change 9%nat with (8 + 1)%nat. rewrite <- (skipn_add N 1 8). rewrite (skipn_app_l _ E _ 8 (eq_sym HE)). reflexivity. }
  assert (Hlt : Nat.ltb (length (prop ++ C ++ tail)) (length prop) = false) by (apply Nat.ltb_ge; rewrite app_length; lia).
  rewrite Hlt, (firstn_app_l _ prop _ _ eq_refl), (skipn_app_l _ prop _ _ eq_refl).
  subst E. rewrite be_val_enc_small by (change (256 ^ N.of_nat 8) with (2 ^ 64); exact Hid).
  subst C. destruct conf as [c|].
  - cbn [app]. assert ((lenN c mod 256 =? 0) = false) as -> by (unfold lenN; lia).
    assert (Hkc : N.to_nat (lenN c mod 256) = length c) by (unfold lenN; lia). rewrite Hkc.
    assert (Nat.ltb (length (c ++ tail)) (length c) = false) as -> by (apply Nat.ltb_ge; rewrite app_length; lia).
    rewrite (firstn_app_l _ c _ _ eq_refl). reflexivity.
  - cbn [app]. rewrite N.eqb_refl. reflexivity.
Qed.

Theorem rot_decode_total : forall d, match rot_decode d with Some _ => True | None => True end.
Proof. intros. destruct (rot_decode d); exact I. Qed.

(* ---------------------------------------------------------------------------------------- *)
(* handshake messages *)

Lemma be_enc2 : forall n, n < 65536 -> be_enc 2 n = [n / 256; n mod 256].
Proof. intros n H. unfold be_enc. cbn [app]. f_equal. apply N.mod_small. lia. Qed.

Lemma tlv_header : forall tag body r, lenN body < 65536 ->
  enc_tlv tag body ++ r = tag :: (lenN body / 256) :: (lenN body mod 256) :: body ++ r /\
  N.to_nat ((lenN body / 256) * 256 + lenN body mod 256) = length body.
Proof.
  intros tag body r H. unfold enc_tlv. rewrite be_enc2 by exact H. cbn [app]. split; [reflexivity|]. unfold lenN in *. lia.
Qed.

Definition algos_ok (a : list (N * N) * bool) : Prop :=
  Forall (fun e => 1 <= fst e <= 3 /\ snd e < 4294967296) (fst a).

Lemma be_enc4_val : forall v, v < 4294967296 -> exists b3 b2 b1 b0, be_enc 4 v = [b3; b2; b1; b0] /\ be_val [b3; b2; b1; b0] = v.
Proof.
  intros v H. exists (v / 256 / 256 / 256 mod 256), (v / 256 / 256 mod 256), (v / 256 mod 256), (v mod 256).
  split; [reflexivity|].
  unfold be_val. cbn [be_val_acc].
  pose proof (N.div_mod v 256 ltac:(discriminate)) as E0. pose proof (N.mod_lt v 256 ltac:(discriminate)) as B0.
  pose proof (N.div_mod (v / 256) 256 ltac:(discriminate)) as E1. pose proof (N.mod_lt (v / 256) 256 ltac:(discriminate)) as B1.
  pose proof (N.div_mod (v / 256 / 256) 256 ltac:(discriminate)) as E2. pose proof (N.mod_lt (v / 256 / 256) 256 ltac:(discriminate)) as B2.
  pose proof (N.div_mod (v / 256 / 256 / 256) 256 ltac:(discriminate)) as E3. pose proof (N.mod_lt (v / 256 / 256 / 256) 256 ltac:(discriminate)) as B3.
  set (a := v / 256) in *. set (b := a / 256) in *. set (c := b / 256) in *.
  set (m0 := v mod 256) in *. set (m1 := a mod 256) in *. set (m2 := b mod 256) in *. set (m3 := c mod 256) in *.
  set (d := c / 256) in *. clearbody a b c d m0 m1 m2 m3.
  assert (d = 0) by nia. nia.
Qed.

Lemma read_algos_list : forall l r acc pl, Forall (fun e => 1 <= fst e <= 3 /\ snd e < 4294967296) l ->
  read_algos (length l) (flat_map (fun e => fst e :: be_enc 4 (snd e)) l ++ r) acc pl = Some (rev acc ++ l, pl, r).
Proof.
  induction l as [|[a s] t IH]; intros r acc pl H.
  - cbn. rewrite app_nil_r. reflexivity.
  - inversion H as [|? ? [Ha Hs] Ht]; subst. cbn [fst snd] in *.
    destruct (be_enc4_val s Hs) as (b3 & b2 & b1 & b0 & He & Hv).
    cbn [length flat_map fst snd app]. rewrite He. cbn [app read_algos]. rewrite Hv.
    assert ((a =? 0) = false) as -> by lia. assert ((1 <=? a) && (a <=? 3) = true) as -> by lia.
    rewrite (IH r ((a, s) :: acc) pl Ht). cbn [rev]. rewrite <- app_assoc. reflexivity.
Qed.

Lemma enc_algos_len : forall a, length (enc_algos a) = (5 * length (fst a) + (if snd a then 5 else 0))%nat.
Proof.
  intros [l pl]. unfold enc_algos. cbn [fst snd]. rewrite app_length.
  assert (length (flat_map (fun e : N * N => fst e :: be_enc 4 (snd e)) l) = (5 * length l)%nat).
  { induction l as [|e t IH]; [reflexivity|]. cbn [flat_map length]. rewrite app_length, IH. cbn [length]. rewrite be_enc_len. lia. }
  rewrite H. destruct pl; cbn [length]; rewrite ?be_enc_len; lia.
Qed.

Lemma read_algos_enc : forall a r, algos_ok a ->
  read_algos (length (enc_algos a) / 5) (enc_algos a ++ r) [] false = Some (fst a, snd a, r).
Proof.
  intros [l pl] r H. rewrite enc_algos_len. cbn [fst snd] in *. unfold enc_algos. cbn [fst snd].
  destruct pl.
  - replace ((5 * length l + 5) / 5)%nat with (S (length l)) by (rewrite Nat.add_comm, Nat.mul_comm, Nat.div_add by lia; simpl; lia).
    assert (He : be_enc 4 2139095040 = [127; 128; 0; 0]) by reflexivity. rewrite He. cbn [app read_algos N.eqb].
    rewrite (read_algos_list l r [] true H). reflexivity.
  - replace ((5 * length l + 0) / 5)%nat with (length l) by (rewrite Nat.add_0_r, Nat.mul_comm, Nat.div_mul by lia; reflexivity).
    cbn [app]. rewrite (read_algos_list l r [] false H). reflexivity.
Qed.

Definition parsed_ok (p : parsed) : Prop :=
  match p with
  | PPing h e a => length h = 20%nat /\ lenN e < 65536 /\ algos_ok a /\ lenN (enc_algos a) < 65536
  | PPong h e a pl => length h = 20%nat /\ lenN e < 65536 /\ algos_ok a /\ lenN (enc_algos a) < 65536 /\ lenN pl < 65536
  | PPeng h pl => length h = 20%nat /\ lenN pl < 65536
  end.

Definition set_stage f st := {| f_stage := Some st; f_hash := f_hash f; f_ecdh := f_ecdh f; f_payload := f_payload f; f_algos := f_algos f |}.
Definition set_hash f h := {| f_stage := f_stage f; f_hash := Some h; f_ecdh := f_ecdh f; f_payload := f_payload f; f_algos := f_algos f |}.
Definition set_ecdh f e := {| f_stage := f_stage f; f_hash := f_hash f; f_ecdh := Some e; f_payload := f_payload f; f_algos := f_algos f |}.
Definition set_payload f p := {| f_stage := f_stage f; f_hash := f_hash f; f_ecdh := f_ecdh f; f_payload := Some p; f_algos := f_algos f |}.
Definition set_algos f a := {| f_stage := f_stage f; f_hash := f_hash f; f_ecdh := f_ecdh f; f_payload := f_payload f; f_algos := Some a |}.

Lemma pp_stage : forall fu st r f, parse_parts (S fu) (enc_tlv 1 [st] ++ r) f = parse_parts fu r (set_stage f st).
Proof. intros. reflexivity. Qed.

Lemma pp_hash : forall fu h r f, length h = 20%nat -> parse_parts (S fu) (enc_tlv 2 h ++ r) f = parse_parts fu r (set_hash f h).
Proof.
  intros fu h r f Hl. destruct (tlv_header 2 h r ltac:(unfold lenN; rewrite Hl; reflexivity)) as [E1 E2]. rewrite E1. cbn [parse_parts N.eqb Pos.eqb].
  rewrite E2, Hl. cbn [Nat.eqb negb].
  assert (Nat.ltb (length (h ++ r)) 20 = false) as -> by (apply Nat.ltb_ge; rewrite app_length; lia).
  rewrite (firstn_app_l _ h r 20 (eq_sym Hl)), (skipn_app_l _ h r 20 (eq_sym Hl)). reflexivity.
Qed.

Lemma pp_ecdh : forall fu e r f, lenN e < 65536 -> parse_parts (S fu) (enc_tlv 3 e ++ r) f = parse_parts fu r (set_ecdh f e).
Proof.
  intros fu e r f Hl. destruct (tlv_header 3 e r Hl) as [E1 E2]. rewrite E1. cbn [parse_parts N.eqb Pos.eqb]. rewrite E2.
  assert (Nat.ltb (length (e ++ r)) (length e) = false) as -> by (apply Nat.ltb_ge; rewrite app_length; lia).
  rewrite (firstn_app_l _ e r _ eq_refl), (skipn_app_l _ e r _ eq_refl). reflexivity.
Qed.

Lemma pp_payload : forall fu p r f, lenN p < 65536 -> parse_parts (S fu) (enc_tlv 5 p ++ r) f = parse_parts fu r (set_payload f p).
Proof.
  intros fu p r f Hl. destruct (tlv_header 5 p r Hl) as [E1 E2]. rewrite E1. cbn [parse_parts N.eqb Pos.eqb]. rewrite E2.
  assert (Nat.ltb (length (p ++ r)) (length p) = false) as -> by (apply Nat.ltb_ge; rewrite app_length; lia).
  rewrite (firstn_app_l _ p r _ eq_refl), (skipn_app_l _ p r _ eq_refl). reflexivity.
Qed.

Lemma pp_algos : forall fu a r f, algos_ok a -> lenN (enc_algos a) < 65536 ->
  parse_parts (S fu) (enc_tlv 4 (enc_algos a) ++ r) f = parse_parts fu r (set_algos f a).
Proof.
  intros fu a r f Ha Hl. destruct (tlv_header 4 (enc_algos a) r Hl) as [E1 E2]. rewrite E1. cbn [parse_parts N.eqb Pos.eqb]. rewrite E2.
  rewrite (read_algos_enc a r Ha). destruct a. reflexivity.
Qed.

(* unknown parts are skipped, wherever they stand (C16-T2 for the handshake codec) *)
Lemma pp_unknown : forall fu tag body r f, (5 < tag) -> lenN body < 65536 ->
  parse_parts (S fu) (enc_tlv tag body ++ r) f = parse_parts fu r f.
Proof.
  intros fu tag body r f Ht Hl. destruct (tlv_header tag body r Hl) as [E1 E2]. rewrite E1. cbn [parse_parts]. rewrite E2.
  assert ((tag =? 0) = false) as -> by lia. assert ((tag =? 1) = false) as -> by lia. assert ((tag =? 2) = false) as -> by lia.
  assert ((tag =? 3) = false) as -> by lia. assert ((tag =? 5) = false) as -> by lia. assert ((tag =? 4) = false) as -> by lia.
  assert (Nat.ltb (length (body ++ r)) (length body) = false) as -> by (apply Nat.ltb_ge; rewrite app_length; lia).
  rewrite (skipn_app_l _ body r _ eq_refl). reflexivity.
Qed.

Lemma pp_end : forall fu r f, parse_parts (S fu) (0 :: r) f = Ok (f, r).
Proof. reflexivity. Qed.

(* C16-T3: a written message followed by its signature (and anything behind it) reads back as the
   same message, given that the 8-byte prefix selects a trusted key and the signature over
   prefix ++ parts verifies under it *)
Theorem initmsg_roundtrip : forall lookup verify pfx p sig tail key,
  length pfx = 8%nat -> parsed_ok p -> (length sig < 256)%nat ->
  lookup (firstn 4 pfx) (firstn 4 (skipn 4 pfx)) = Some key ->
  verify key (pfx ++ write_body p) sig = true ->
  read_from lookup verify (pfx ++ write_body p ++ [lenN sig] ++ sig ++ tail) = Ok (p, key).
Proof.
  intros lookup verify pfx p sig tail key Hpfx Hok Hsig Hlk Hver.
  unfold read_from.
  assert (Nat.ltb (length (pfx ++ write_body p ++ [lenN sig] ++ sig ++ tail)) 8 = false) as ->
    by (apply Nat.ltb_ge; rewrite app_length; lia).
  assert (Hf4 : firstn 4 (pfx ++ write_body p ++ [lenN sig] ++ sig ++ tail) = firstn 4 pfx).
  { rewrite firstn_app. replace (4 - length pfx)%nat with 0%nat by lia. rewrite firstn_O, app_nil_r. reflexivity. }
  assert (Hs4 : firstn 4 (skipn 4 (pfx ++ write_body p ++ [lenN sig] ++ sig ++ tail)) = firstn 4 (skipn 4 pfx)).
  { rewrite skipn_app. replace (4 - length pfx)%nat with 0%nat by lia. rewrite skipn_O, firstn_app, skipn_length.
    replace (4 - (length pfx - 4))%nat with 0%nat by lia. rewrite firstn_O, app_nil_r. reflexivity. }
  rewrite Hf4, Hs4, Hlk. rewrite (skipn_app_l _ pfx _ 8 (eq_sym Hpfx)).
  set (R := [lenN sig] ++ sig ++ tail).
  assert (Hparse : forall fu, (6 <= fu)%nat ->
     parse_parts fu (write_body p ++ R) f0 =
     Ok (match p with
         | PPing h e a => set_algos (set_ecdh (set_hash (set_stage f0 1) h) e) a
         | PPong h e a pl => set_payload (set_algos (set_ecdh (set_hash (set_stage f0 2) h) e) a) pl
         | PPeng h pl => set_payload (set_hash (set_stage f0 3) h) pl
         end, R)).
  { intros fu Hfu. do 6 (destruct fu as [|fu]; [lia|]).
    destruct p as [h e a|h e a pl|h pl]; cbn [parsed_ok] in Hok; unfold write_body; repeat rewrite <- app_assoc.
    - destruct Hok as (H1 & H2 & H3 & H4). rewrite pp_stage, pp_hash, pp_ecdh, pp_algos by assumption. reflexivity.
    - destruct Hok as (H1 & H2 & H3 & H4 & H5). rewrite pp_stage, pp_hash, pp_ecdh, pp_algos, pp_payload by assumption. reflexivity.
    - destruct Hok as (H1 & H2). rewrite pp_stage, pp_hash, pp_payload by assumption. reflexivity. }
  assert (Hlen6 : (6 <= S (length (write_body p ++ R)))%nat).
  { rewrite app_length. assert (4 <= length (write_body p))%nat by (destruct p; unfold write_body; change (enc_tlv 1 [?x]) with [1; 0; 1; x]; cbn [app length]; lia). unfold R. cbn [app length]. lia. }
  rewrite (Hparse _ Hlen6).
  unfold R. cbn [app].
  assert (Hk : N.to_nat (lenN sig) = length sig) by (unfold lenN; lia). rewrite Hk.
  assert (Nat.ltb (length (sig ++ tail)) (length sig) = false) as -> by (apply Nat.ltb_ge; rewrite app_length; lia).
  rewrite (firstn_app_l _ sig tail _ eq_refl).
  assert (Hpos : firstn (length (pfx ++ write_body p ++ lenN sig :: sig ++ tail) - length (lenN sig :: sig ++ tail))
                        (pfx ++ write_body p ++ lenN sig :: sig ++ tail) = pfx ++ write_body p).
  { rewrite app_assoc. rewrite app_length. replace (length (pfx ++ write_body p) + length (lenN sig :: sig ++ tail) - length (lenN sig :: sig ++ tail))%nat
      with (length (pfx ++ write_body p)) by lia. apply firstn_app_l. reflexivity. }
  rewrite Hpos, Hver. cbn [negb].
  destruct p as [h e a|h e a pl|h pl]; reflexivity.
Qed.
